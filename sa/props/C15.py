"""C15 - reaction-network store stays consistent under every history of edits."""
from __future__ import annotations

import ast

from ..pattern import pmatch, pfind, pall

from ..absval import Undecided, eval_expr, truth_table
from ..cfg import CFG, ENTRY
from ..core import (alpha, AnalysisError, call_name, dotted, is_const, local_defs, norm, origin, parent_map,
                    walk_local)
from ..facts import guards_of, returns_of, enclosing_loops, assigned_subscripts, conjuncts

HG = "synkit/CRN/Hypergraph/hypergraph.py"
RX = "synkit/CRN/Hypergraph/rxn.py"
CV = "synkit/CRN/Hypergraph/conversion.py"
CLS = "CRNHyperGraph."
INDICES = ["species_to_in_edges", "species_to_out_edges", "species_to_mol", "_rule_counters"]

META = {
    "explanation": (
        "R6(a) guarded write: on the CFG of add_rxn every path to `self.edges[k] = e` passes a freshness guard "
        "(`k in self.edges` -> raise) or an id generator whose loop provably exits only on an unused id. R6(b) "
        "index pairing: every method that adds/removes a reaction or strips a species updates each redundant index "
        "for the matching side (reactants <-> out-edges, products <-> in-edges) in the same method, orphan pruning "
        "removes the species from all four structures under the both-indices-empty condition. R6(c) who-may-write: "
        "package-wide sweep for writes to the store/indices outside the class (two enumerated, membership-guarded "
        "exceptions). R13 sign agreement of the sparse and dense incidence builders; merge routes through add_rxn; "
        "copy is deepcopy; RXNSide keeps only positive coefficients (cmp domain)."
    ),
    "rules": {"R6a": "guarded write (must-pass-through on the CFG)", "R6b": "index pairing per mutating method",
              "R6c": "who-may-write sweep over the package", "R13": "sibling sign agreement",
              "CMP": "coefficient filter on the cmp domain", "SHAPE": "merge/copy shape"},
    "not_decided": "nothing further by value; aliasing of RXNSide objects between merged networks is outside the statement",
    "trusted_base": ["CPython ast", "sa/* analyser", "dict/set/defaultdict semantics", "copy.deepcopy"],
    "assumptions": ["callers use the public methods; direct attribute writes by user code are out of scope"],
}


def run(rep):
    rep.run(guarded_write)
    rep.run(pairing_add)
    rep.run(pairing_remove)
    rep.run(prune_blocks)
    rep.run(who_may_write)
    rep.run(merge_copy)
    rep.run(incidence)
    rep.run(rxnside)
    rep.run(side_owns_its_dict)
    rep.run(no_flattening)
    rep.run(mol_guards)
    rep.run(netfold)


def no_flattening(rep):
    """the store keeps every reaction's own coefficients: a side handed on to another constructor must not be read as a list of labels"""
    from ..rules.rxnside import flattening_sites
    n = 0
    for q, fi in sorted(rep.repo.module(HG).funcs.items()):
        if not q.startswith(CLS) or ".<locals>." in q:
            continue
        for node, why in flattening_sites(rep.repo, fi):
            n += 1
            rep.ob("O15.4", "R3a", fi, False, node, "a reaction keeps its own stoichiometry when it is copied into another store: " + why, node=node)
    if not n:
        rep.ob("O15.4", "R3a", f"{HG}:{CLS}*", True, "no RXNSide is re-normalised as an iterable", "a reaction keeps its own stoichiometry when it is copied into another store")


# ------------------------------------------------------------------ O15.2: a side's coefficient dict belongs to that side alone
def side_owns_its_dict(rep):
    """remove_species / add_rxn edit `side.data` in place.  The dict stored in a side must therefore be fresh for that side: built in the storing
    method, or returned by a helper whose every return is a container built in that call - never the result of a memoised (lru_cache / cache)
    function, which hands the same object to every caller, and never a module-level object."""
    from ..rules import provenance as PV
    mi = rep.repo.module(RX)
    meths = {q.split(".", 1)[1]: f for q, f in mi.funcs.items() if q.startswith("RXNSide.") and ".<locals>." not in q}

    def cached(f):
        return any(any(w in norm(d) for w in ("lru_cache", "cache", "memoize")) for d in f.node.decorator_list)

    def callee_of(c):
        if isinstance(c, ast.Call) and isinstance(c.func, ast.Attribute) and isinstance(c.func.value, ast.Name) and c.func.value.id in ("cls", "self", "RXNSide"):
            return meths.get(c.func.attr)
        return None

    def classify(f, expr, depth=3):
        """'fresh' | 'shared: why' | 'unknown: why' for the value of expr inside method f"""
        d = local_defs(f.node)
        verdicts = []
        for r in PV.all_roots(d, expr):
            if isinstance(r, (ast.Dict, ast.DictComp)) or (isinstance(r, ast.Call) and call_name(r) in ("dict", "defaultdict", "OrderedDict", "Counter", "deepcopy")):
                verdicts.append("fresh")
            elif isinstance(r, ast.Call) and isinstance(r.func, ast.Attribute) and r.func.attr == "copy":
                verdicts.append("fresh")
            elif isinstance(r, ast.Constant) and r.value is None:
                verdicts.append("fresh")
            elif callee_of(r) is not None and depth > 0:
                g = callee_of(r)
                if cached(g):
                    verdicts.append(f"shared: `{g.qual}` is memoised ({', '.join(norm(x) for x in g.node.decorator_list)}): every caller receives the same dict object")
                else:
                    for ret in returns_of(g.node):
                        if ret.value is not None:
                            verdicts.append(classify(g, ret.value, depth - 1))
            elif isinstance(r, ast.Name) and r.id in f.params and depth > 0:
                # an alias of what the caller passed: look at the callers inside the class
                idx = [p_ for p_ in f.params if p_ not in ("self", "cls")].index(r.id) if r.id in [p_ for p_ in f.params if p_ not in ("self", "cls")] else None
                name = f.qual.split(".")[-1]
                sites = [(h, c) for h in meths.values() for c in walk_local(h.node) if callee_of(c) is f]
                if idx is None or not sites:
                    verdicts.append(f"unknown: `{r.id}` is whatever the caller passes")
                for h, c in sites:
                    arg = c.args[idx] if idx is not None and idx < len(c.args) else next((k.value for k in c.keywords if k.arg == r.id), None)
                    verdicts.append(classify(h, arg, depth - 1) if arg is not None else f"unknown: call of {name} without `{r.id}`")
            elif isinstance(r, ast.Attribute) and norm(r) == "self.data":
                verdicts.append("fresh")   # re-normalising its own dict
            else:
                verdicts.append(f"unknown: `{norm(r)[:50]}`")
        bad = [v for v in verdicts if v.startswith("shared")]
        unk = [v for v in verdicts if v.startswith("unknown")]
        return bad[0] if bad else (unk[0] if unk else "fresh")

    n = 0
    for f in meths.values():
        for st in walk_local(f.node):
            if isinstance(st, ast.Assign) and len(st.targets) == 1 and isinstance(st.targets[0], ast.Attribute) and st.targets[0].attr == "data":
                n += 1
                v = classify(f, st.value)
                ok = True if v == "fresh" else (False if v.startswith("shared") else None)
                rep.ob("O15.2", "R9", f, ok, st, "the coefficient dict stored in a side is built for that side alone" + ("" if ok else f" ({v})"), node=st)
    rep.need("R9", n, 1, "stores to RXNSide.data")


# ------------------------------------------------------------------ O15.1
def _generator_is_fresh(rep):
    """`_next_edge_id_for_rule` returns an id that is not in self.edges: on every path to the return the last thing that happened to the
    returned id is a membership test against self.edges that came out negative (a path rule on the function's flow graph)."""
    from ..cfg import ENTRY
    fi = rep.f(HG, CLS + "_next_edge_id_for_rule")
    rets = returns_of(fi.node)
    if len(rets) != 1:
        return fi, None, "generator has several returns"
    defs = local_defs(fi.node)
    cfg = CFG(fi.node)

    def res(e):
        return norm(origin(defs, e))
    rtxt = res(rets[0].value)
    tests = {}
    for st in cfg.stmts():
        if isinstance(st, (ast.If, ast.While)):
            t = st.test
            if isinstance(t, ast.Compare) and len(t.ops) == 1 and isinstance(t.ops[0], (ast.In, ast.NotIn)) and norm(t.comparators[0]) == "self.edges" and res(t.left) == rtxt:
                tests[st] = isinstance(t.ops[0], ast.NotIn)  # the branch on which the id is known to be unused
    if not tests:
        return fi, False, "the generated id is never checked against self.edges"
    through = dict(tests)
    for st in cfg.stmts():
        # `for n in itertools.count(..)` never runs out: its exhaustion edge does not exist
        if isinstance(st, ast.For) and isinstance(st.iter, ast.Call) and norm(st.iter.func) in ("itertools.count", "count") and not st.orelse:
            through[st] = False
    names = {n.id for e in (rets[0].value, origin(defs, rets[0].value)) for n in ast.walk(e) if isinstance(n, ast.Name)}
    if not cfg.all_paths_pass(ENTRY, rets[0], through.keys(), through):
        return fi, False, "a path reaches the return without a negative membership test of the returned id (e.g. the search loop is left by `break` with a used id)"
    for st in cfg.stmts():
        tg = []
        if isinstance(st, ast.Assign):
            tg = st.targets
        elif isinstance(st, (ast.AugAssign, ast.AnnAssign, ast.For)):
            tg = [st.target]
        if any(isinstance(x, ast.Name) and isinstance(x.ctx, ast.Store) and x.id in names for t_ in tg for x in ast.walk(t_)):
            if not cfg.all_paths_pass(st, rets[0], through.keys(), through):
                return fi, False, f"the id is changed after the freshness test ({norm(st)[:40]})"
    t0 = next(iter(tests))
    return fi, True, f"{norm(t0.test)} decides every path to `return {norm(rets[0].value)}`"


def guarded_write(rep):
    gen_fi, fresh, why = _generator_is_fresh(rep)
    rep.ob("O15.1", "R6a", gen_fi, fresh, "_next_edge_id_for_rule", f"a generated id is never one that is already in use ({why})",
           node=gen_fi.node)
    fi = rep.f(HG, CLS + "add_rxn")
    cfg = CFG(fi.node)
    writes = [(t, v, st) for t, v, st in assigned_subscripts(fi.node) if norm(t.value) == "self.edges"]
    rep.need("R6a", len(writes), 1, "self.edges[...] = e in add_rxn")
    for t, v, st in writes:
        key = norm(t.slice)
        guards, branch = [], {}
        for n in cfg.stmts():
            if isinstance(n, ast.If) and isinstance(n.test, ast.Compare) and len(n.test.ops) == 1 \
                    and norm(n.test.comparators[0]) == "self.edges" and norm(n.test.left) == key:
                from ..core import terminates
                if isinstance(n.test.ops[0], ast.In) and terminates(n.body) and all(isinstance(x, ast.Raise) for x in n.body[-1:]):
                    guards.append(n)
                    branch[n] = False
            if isinstance(n, ast.Assign) and len(n.targets) == 1 and norm(n.targets[0]) == key \
                    and isinstance(n.value, ast.Call) and call_name(n.value) == "_next_edge_id_for_rule" and fresh:
                guards.append(n)
        ok = bool(guards) and cfg.all_paths_pass(ENTRY, st, guards, branch)
        # no re-binding of the key between guard and write
        rebinds = [n for n in cfg.stmts() if isinstance(n, ast.Assign) and any(norm(x) == key for x in n.targets) and n not in guards]
        rep.ob("O15.1", "R6a", fi, ok and not rebinds, st,
               "every path to the store write passes a freshness guard for the id (no id refers to two reactions)",
               {"guards": [norm(g)[:70] for g in guards], "rebinds": [norm(r)[:60] for r in rebinds]}, node=st)
        # the edge object stored carries that id
        src = origin(local_defs(fi.node), v)
        from ..core import kwarg
        ok = isinstance(src, ast.Call) and call_name(src) == "HyperEdge" and norm(kwarg(src, "id") or (src.args[0] if src.args else ast.Constant(None))) == key
        rep.ob("O15.1", "R6a", fi, ok, src, "the stored reaction carries the id it is stored under", node=st)


# ------------------------------------------------------------------ O15.2
SIDE_INDEX = {"reactants": "species_to_out_edges", "products": "species_to_in_edges"}


def _side_loops(fi):
    """for-loops over `<e>.reactants...` / `<e>.products...` with their side."""
    out = []
    for lp in [n for n in walk_local(fi.node) if isinstance(n, ast.For)]:
        it = norm(lp.iter)
        for side in SIDE_INDEX:
            if f".{side}" in it:
                out.append((side, lp))
    return out


def pairing_add(rep):
    fi = rep.f(HG, CLS + "add_rxn")
    pm = parent_map(fi.node)
    loops = _side_loops(fi)
    seen = set()
    for side, lp in loops:
        var = norm(lp.target)
        want = SIDE_INDEX[side]
        other = SIDE_INDEX["products" if side == "reactants" else "reactants"]
        adds = [c for c in walk_local(lp) if isinstance(c, ast.Call) and call_name(c) == "add" and "species_to_" in norm(c.func)]
        for c in adds:
            tgt = norm(c.func.value)
            ok = tgt == f"self.{want}[{var}]" and c.args and norm(c.args[0]) == "edge_id" and not guards_of(pm, c, lp)
            rep.ob("O15.2", "R6b", fi, ok, c, f"a reaction is registered under `{want}` for each of its {side}", node=c)
            seen.add(side)
    for side in SIDE_INDEX:
        if side not in seen:
            rep.ob("O15.2", "R6b", fi, False, f"no registration loop over {side}", f"add_rxn registers the reaction in `{SIDE_INDEX[side]}`", node=fi.node)
    sp = [c for c in walk_local(fi.node) if isinstance(c, ast.Call) and norm(c.func) == "self.species.add"]
    ok = False
    for c in sp:
        lps = enclosing_loops(pm, c, fi.node)
        if lps and norm(lps[0].iter).endswith(".species()") and norm(c.args[0]) == norm(lps[0].target) and not guards_of(pm, c, lps[0]):
            ok = True
    rep.ob("O15.2", "R6b", fi, ok, sp[0] if sp else "self.species.add", "every species of the new reaction enters the species set", node=sp[0] if sp else fi.node)
    # order: indices are updated after the store write and validation raises come first
    cfg = CFG(fi.node)
    writes = [st for t, v, st in assigned_subscripts(fi.node) if norm(t.value) == "self.edges"]
    raises = [n for n in walk_local(fi.node) if isinstance(n, ast.Raise)]
    if writes:
        late = [r for r in raises if cfg.can_reach(writes[0], r)]
        rep.ob("O15.2", "R6b", fi, not late, f"{len(late)} raise(s) reachable after the store write",
               "add_rxn cannot fail after it has started to modify the store (no half-registered reaction)", node=writes[0])


def pairing_remove(rep):
    fi = rep.f(HG, CLS + "remove_rxn")
    pm = parent_map(fi.node)
    pops = [c for c in walk_local(fi.node) if isinstance(c, ast.Call) and norm(c.func) in ("self.edges.pop",)]
    dels = [d for d in walk_local(fi.node) if isinstance(d, ast.Delete) and "self.edges[" in norm(d)]
    rep.ob("O15.2", "R6b", fi, len(pops) + len(dels) == 1, pops[0] if pops else "self.edges.pop", "remove_rxn removes the reaction from the store exactly once",
           node=pops[0] if pops else fi.node)
    loops = _side_loops(fi)
    seen = set()
    for side, lp in loops:
        var = norm(lp.target)
        want = SIDE_INDEX[side]
        dis = [c for c in walk_local(lp) if isinstance(c, ast.Call) and call_name(c) in ("discard", "remove") and "species_to_" in norm(c.func)
               and "edges" in norm(c.func)]
        for c in dis:
            tgt = norm(c.func.value)
            ok = tgt == f"self.{want}[{var}]" and norm(c.args[0]) == "edge_id" and not guards_of(pm, c, lp)
            rep.ob("O15.2", "R6b", fi, ok, c, f"removing a reaction unregisters it from `{want}` for each of its {side}", node=c)
            if ok:
                seen.add(side)
    for side in SIDE_INDEX:
        if side not in seen:
            rep.ob("O15.2", "R6b", fi, False, f"no unregistration over {side}", f"remove_rxn clears `{SIDE_INDEX[side]}` entries of the reaction", node=fi.node)
    # remove_species
    fi = rep.f(HG, CLS + "remove_species")
    pm = parent_map(fi.node)
    P = "species"
    found = set()
    for lp in [n for n in walk_local(fi.node) if isinstance(n, ast.For)]:
        it = norm(lp.iter)
        for side, idx in SIDE_INDEX.items():
            if f"self.{idx}" in it:
                var = norm(lp.target)
                strip = [c for c in walk_local(lp) if isinstance(c, ast.Call) and call_name(c) == "pop" and f".{side}.pop" in norm(c.func)]
                other_side = "products" if side == "reactants" else "reactants"
                wrong = [c for c in walk_local(lp) if isinstance(c, ast.Call) and call_name(c) == "pop" and f".{other_side}.pop" in norm(c.func)]
                dis = [c for c in walk_local(lp) if isinstance(c, ast.Call) and call_name(c) in ("discard", "remove")
                       and norm(c.func.value) == f"self.{idx}[{P}]" and norm(c.args[0]) == var]
                ok = bool(strip) and not wrong and all(norm(c.args[0]) == P for c in strip) and bool(dis)
                rep.ob("O15.2", "R6b", fi, ok, lp.iter, f"stripping a species walks `{idx}` and edits the {side} of exactly those reactions, keeping the index in step",
                       {"strips": [norm(c)[:50] for c in strip], "wrong_side": [norm(c)[:50] for c in wrong], "index_updates": len(dis)}, node=lp)
                found.add(side)
                # emptied reactions are removed through remove_rxn
                # the edge object edited in this loop: $e = self.edges[<loop var>]
                ev = [b_["e"] for _, b_ in pfind(f"$e = self.edges[{var}]", lp)]
                e_ = ev[0] if ev else "?"
                # the set whose members are later handed to remove_rxn
                rm_sets = {norm(l2.iter) for l2 in walk_local(fi.node) if isinstance(l2, ast.For)
                           and any(isinstance(c2, ast.Call) and norm(c2.func) == "self.remove_rxn" and c2.args and norm(c2.args[0]) == norm(l2.target) for c2 in walk_local(l2))}
                rm = [n for n in walk_local(lp) if isinstance(n, ast.Call) and call_name(n) == "add" and isinstance(n.func, ast.Attribute)
                      and norm(n.func.value) in rm_sets and n.args and norm(n.args[0]) == var]
                gtx = [conjuncts(t) for c in rm for t, s in guards_of(pm, c, lp) if s]
                rep.ob("O15.2", "R6b", fi, bool(rm) and [f"not{e_}.products.data", f"not{e_}.reactants.data"] in gtx, alpha(rm[0], fi.node) if rm else lp,
                       "a reaction left with no reactant and no product is scheduled for removal", node=rm[0] if rm else lp)
    for side in SIDE_INDEX:
        if side not in found:
            rep.ob("O15.2", "R6b", fi, False, f"no loop over {SIDE_INDEX[side]}", f"remove_species strips the species from the {side} of its reactions", node=fi.node)
    rr = [c for c in walk_local(fi.node) if isinstance(c, ast.Call) and norm(c.func) == "self.remove_rxn"]
    rep.ob("O15.2", "R6b", fi, bool(rr), rr[0] if rr else "self.remove_rxn", "emptied reactions are removed through remove_rxn (indices stay paired)", node=rr[0] if rr else fi.node)
    g = [st for st in fi.node.body if isinstance(st, ast.If) and norm(st.test) == "species not in self.species"]
    rep.ob("O15.2", "R6b", fi, bool(g) and isinstance(g[0].body[-1], ast.Raise), g[0].test if g else "guard", "unknown species are rejected before anything is modified")


def prune_blocks(rep):
    from ..facts import guard_atoms
    n_blocks = 0
    for q in ("remove_rxn", "remove_species"):
        fi = rep.f(HG, CLS + q)
        pm = parent_map(fi.node)
        for d in [c for c in walk_local(fi.node) if isinstance(c, ast.Call) and norm(c.func) == "self.species.discard" and c.args]:
            n_blocks += 1
            key = norm(d.args[0])
            # the conditions under which the discard runs (enclosing tests and preceding guard clauses), as a flat conjunction
            atoms_ = guard_atoms(guards_of(pm, d, fi.node))
            # a failed `a and b` / passed `a or b` that reached this point (e.g. an earlier guard clause that returned) only restricts when the discard runs:
            # it cannot make the species be pruned in a state where it still has reactions
            atoms_ = [(c_, s_) for c_, s_ in atoms_ if not isinstance(c_, ast.BoolOp)]
            flat = [(norm(c_).replace(" ", ""), s_) for c_, s_ in atoms_]
            need_c = {(f"self.species_to_in_edges.get({key})", False), (f"self.species_to_out_edges.get({key})", False)}
            extra = [f for f in flat if f not in need_c and f[0] not in ("prune_orphans",) and not f[0].endswith("notinself.edges") and not f[0].endswith("notinself.species")
                     and not (f[0].endswith("inself.edges") and f[1]) and not (f[0].endswith("inself.species") and f[1])]
            rep.ob("O15.2", "R6b", fi, need_c <= set(flat) and not extra, f"discard({key}) under {sorted(flat)}",
                   "a species is pruned only when it has neither producing nor consuming reactions left", node=d)
            # the set, both indices and the molecule map go together: the three pops are siblings of the discard
            st = pm.get(d)
            while st is not None and not isinstance(st, ast.stmt):
                st = pm.get(st)
            owner = pm.get(st)
            sibs = []
            for f_ in ("body", "orelse", "finalbody"):
                lst = getattr(owner, f_, None)
                if isinstance(lst, list) and any(x is st for x in lst):
                    sibs = lst
            ops = {norm(c.func): [norm(a) for a in c.args] for s2 in sibs for c in ast.walk(s2) if isinstance(c, ast.Call) and c.args}
            need = {"self.species.discard": key, "self.species_to_in_edges.pop": key, "self.species_to_out_edges.pop": key, "self.species_to_mol.pop": key}
            missing = [k for k, v in need.items() if k not in ops or ops[k][0] != v]
            rep.ob("O15.2", "R6b", fi, not missing, f"prune block for `{key}`", "pruning removes the species from the set, both indices and the molecule map together",
                   {"missing": missing}, node=d)
    rep.need("R6b", n_blocks, 3, "orphan prune blocks (2 in remove_rxn, 1 in remove_species)")


# ------------------------------------------------------------------ O15.3
ALLOWED_EXTERNAL = {
    # (module, function): guard that must enclose the write
    (CV, "bipartite_to_hypergraph"): "<key> in <graph>.species",
    (CV, "species_graph_to_hypergraph"): "<key> in <graph>.species",
}


def who_may_write(rep):
    n_sites = 0
    for fi in rep.repo.all_funcs():
        if fi.rel == HG and fi.qual.startswith(CLS):
            continue
        if ".<locals>." in fi.qual:
            continue
        pm = None
        for n in walk_local(fi.node, into_nested=True):
            target = None
            if isinstance(n, (ast.Assign, ast.AugAssign)):
                tgs = n.targets if isinstance(n, ast.Assign) else [n.target]
                for t in tgs:
                    if isinstance(t, ast.Subscript) and isinstance(t.value, ast.Attribute) and t.value.attr in INDICES:
                        target = (t.value.attr, n)
                    if isinstance(t, ast.Attribute) and t.attr in INDICES and not (isinstance(t.value, ast.Name) and t.value.id == "self"):
                        target = (t.attr, n)
            elif isinstance(n, ast.Call) and isinstance(n.func, ast.Attribute) and n.func.attr in (
                    "add", "discard", "remove", "pop", "clear", "update", "setdefault", "popitem"):
                base = n.func.value
                if isinstance(base, ast.Subscript):
                    base = base.value
                if isinstance(base, ast.Attribute) and base.attr in INDICES:
                    target = (base.attr, n)
            if target is None:
                continue
            n_sites += 1
            pm = pm or parent_map(fi.node)
            allowed = ALLOWED_EXTERNAL.get((fi.rel, fi.qual))
            ok = False
            if allowed and target[0] == "species_to_mol":
                # <h>.species_to_mol[<k>] = ...  must sit under  `<k> in <h>.species`
                wm = pmatch("$h.species_to_mol[$k] = $$v", target[1])
                gs = [t for t, s in guards_of(pm, target[1], fi.node) if s]
                ok = wm is not None and any(pmatch(f"{wm['k']} in {wm['h']}.species", t) is not None for t in gs)
            rep.ob("O15.3", "R6c", fi, ok, alpha(target[1], fi.node), f"only CRNHyperGraph methods write `{target[0]}`"
                   + (f" (enumerated exception: must stay guarded by `{allowed}`)" if allowed else ""), node=target[1])
    rep.need("R6c", n_sites, 2, "external writes to the indices (the two enumerated exceptions)")
    rep.extra["who_may_write_functions_scanned"] = sum(1 for _ in rep.repo.all_funcs())
    # inside the class: the primary store is written only by add_rxn / remove_rxn
    cls = rep.repo.cls(HG, "CRNHyperGraph")
    for m in [x for x in cls.body if isinstance(x, ast.FunctionDef)]:
        w = []
        for n in ast.walk(m):
            if isinstance(n, ast.Assign) and any(isinstance(t, ast.Subscript) and norm(t.value) == "self.edges" for t in n.targets):
                w.append(n)
            if isinstance(n, ast.Call) and norm(n.func) in ("self.edges.pop", "self.edges.clear", "self.edges.update", "self.edges.setdefault"):
                w.append(n)
            if isinstance(n, ast.Delete) and any("self.edges[" in norm(t) for t in n.targets):
                w.append(n)
        if w:
            rep.ob("O15.3", "R6c", f"{HG}:{CLS}{m.name}", m.name in ("add_rxn", "remove_rxn"), w[0],
                   "the id -> reaction map is written only by add_rxn and remove_rxn", node=w[0])


# ------------------------------------------------------------------ O15.4
def merge_copy(rep):
    fi = rep.f(HG, CLS + "merge")
    direct = []
    for n in walk_local(fi.node):
        if isinstance(n, (ast.Assign, ast.AugAssign)):
            tgs = n.targets if isinstance(n, ast.Assign) else [n.target]
            if any(isinstance(t, (ast.Subscript, ast.Attribute)) and norm(t).startswith("self.") for t in tgs):
                direct.append(n)
        if isinstance(n, ast.Call) and isinstance(n.func, ast.Attribute) and norm(n.func.value).startswith("self.") \
                and n.func.attr in ("add", "update", "pop", "discard", "clear", "setdefault"):
            direct.append(n)
    rep.ob("O15.4", "SHAPE", fi, not direct, direct[0] if direct else "no direct store writes", "merge modifies the store only through add_rxn", node=direct[0] if direct else fi.node)
    adds = [c for c in walk_local(fi.node) if isinstance(c, ast.Call) and norm(c.func) == "self.add_rxn"]
    rep.ob("O15.4", "SHAPE", fi, len(adds) == 1, adds[0].func if adds else "self.add_rxn", "each merged reaction goes through add_rxn (guards and indices apply)")
    if adds:
        c = adds[0]
        txt = norm(c)
        lps_ = enclosing_loops(parent_map(fi.node), c, fi.node)
        ev = norm(lps_[0].target) if lps_ else "?"
        ldefs = local_defs(lps_[0]) if lps_ else {}
        a0, a1 = (norm(origin(ldefs, c.args[0])), norm(origin(ldefs, c.args[1]))) if len(c.args) >= 2 else ("", "")
        ok = len(c.args) >= 2 and f"{ev}.reactants" in a0 and f"{ev}.products" in a1 and f"{ev}.products" not in a0 and f"{ev}.reactants" not in a1 \
            and bool(lps_) and norm(lps_[0].iter) == f"{fi.params[1]}.edge_list()"
        rep.ob("O15.4", "SHAPE", fi, ok, c.func, "merge keeps reactants as reactants and products as products", node=c)
        from ..core import kwarg
        md = local_defs(fi.node)
        from ..core import bound
        rk, ik = bound(fi, c, "rule"), bound(fi, c, "edge_id")
        okf = isinstance(rk, ast.Name) and isinstance(ik, ast.Name) and \
            any(pmatch(f"getattr({ev}, 'rule', $$d)", d_.value) is not None for d_ in md.get(rk.id, []) if d_.value is not None) and \
            any(pmatch(f"getattr({ev}, 'id', None)", d_.value) is not None for d_ in md.get(ik.id, []) if d_.value is not None) and \
            all(pmatch(f"getattr({ev}, 'id', None)", d_.value) is not None or pmatch(f"self._next_edge_id_for_rule({rk.id})", d_.value) is not None
                for d_ in md.get(ik.id, []) if d_.value is not None)
        rep.ob("O15.4", "SHAPE", fi, okf,
               c.func, "merge forwards the rule and the chosen id", node=c)
    cp = rep.f(HG, CLS + "copy")
    rets = returns_of(cp.node)
    from ..rules.nonmut import is_deepcopy
    ok = len(rets) == 1 and is_deepcopy(rets[0].value) and norm(rets[0].value.args[0]) == "self"
    rep.ob("O15.4", "SHAPE", cp, ok, rets[0] if rets else "return", "copy() is a deep copy (unaffected by later edits of the original)")


def _coeff_sign(stmts, c, pm):
    """sign with which the variable `c` is accumulated by the statements: `x[..] -= int(c)`, `x[k] = x.get(k, 0) + int(c)`; None = not decided"""
    from ..absval import linform
    signs = set()
    for st in stmts:
        for n in ast.walk(st):
            val = flip = None
            if isinstance(n, ast.AugAssign) and isinstance(n.op, (ast.Add, ast.Sub)):
                val, flip = n.value, (-1 if isinstance(n.op, ast.Sub) else 1)
            elif isinstance(n, ast.Assign) and (isinstance(n.value, ast.BinOp) or (isinstance(n.targets[0], ast.Subscript) and isinstance(n.value, (ast.UnaryOp, ast.Call, ast.Name)))):
                val, flip = n.value, 1
            if val is None or not any(isinstance(x, ast.Name) and x.id == c for x in ast.walk(val)):
                continue
            try:
                lf = linform(val, lambda e: norm(e) if isinstance(e, (ast.Name, ast.Subscript, ast.Attribute)) or
                             (isinstance(e, ast.Call) and not (isinstance(e.func, ast.Name) and e.func.id in ("int", "float", "round"))) else None)
            except Undecided:
                return None
            k = lf.get(c, 0) * flip
            signs.add(1 if k > 0 else (-1 if k < 0 else 0))
    return signs.pop() if len(signs) == 1 else None


def incidence(rep):
    """every iteration over `<edge>.reactants.items()` / `.products.items()` feeds the coefficient into the matrix with sign -1 / +1;
    directly (`mat[..] -= int(c)`) or through a list of signed terms that is added up afterwards"""
    from ..absval import linform
    from ..facts import iterations as _its
    fi = rep.f(HG, CLS + "incidence_matrix")
    pm = parent_map(fi.node)
    n = 0
    sites = [x for x in walk_local(fi.node) if isinstance(x, (ast.For, ast.comprehension))]
    for lp in sites:
        it = norm(lp.iter)
        side = "reactants" if it.endswith(".reactants.items()") else ("products" if it.endswith(".products.items()") else None)
        if side is None or not (isinstance(lp.target, ast.Tuple) and len(lp.target.elts) == 2 and isinstance(lp.target.elts[1], ast.Name)):
            continue
        n += 1
        c = lp.target.elts[1].id
        sign = None
        construct = lp.iter
        if isinstance(lp, ast.For):
            sign = _coeff_sign(lp.body, c, pm)
            construct = lp.body[0] if lp.body else lp
        else:
            comp = pm.get(lp)
            # [(label, <+-int(c)>) for label, c in side.items()]  collected in a list that is summed up later: sign = sign in the term * sign at the sum
            if isinstance(comp, (ast.ListComp, ast.GeneratorExp)) and isinstance(comp.elt, ast.Tuple):
                pos = [i for i, e in enumerate(comp.elt.elts) if any(isinstance(x, ast.Name) and x.id == c for x in ast.walk(e))]
                holder = pm.get(comp)
                var = None
                if isinstance(holder, ast.Assign) and isinstance(holder.targets[0], ast.Name):
                    var = holder.targets[0].id
                elif isinstance(holder, ast.AugAssign) and isinstance(holder.op, ast.Add) and isinstance(holder.target, ast.Name):
                    var = holder.target.id
                elif isinstance(holder, ast.Call) and isinstance(holder.func, ast.Attribute) and holder.func.attr == "extend" and isinstance(holder.func.value, ast.Name):
                    var = holder.func.value.id
                if len(pos) == 1 and var:
                    try:
                        s1 = linform(comp.elt.elts[pos[0]], lambda e: e.id if isinstance(e, ast.Name) else None).get(c, 0)
                    except Undecided:
                        s1 = 0
                    users = [l for l in walk_local(fi.node) if isinstance(l, ast.For) and isinstance(l.iter, ast.Name) and l.iter.id == var
                             and isinstance(l.target, ast.Tuple) and len(l.target.elts) == len(comp.elt.elts) and isinstance(l.target.elts[pos[0]], ast.Name)]
                    if s1 and len(users) == 1:
                        s2 = _coeff_sign(users[0].body, users[0].target.elts[pos[0]].id, pm)
                        sign = None if s2 is None else (1 if s1 * s2 > 0 else (-1 if s1 * s2 < 0 else 0))
                construct = comp
        want = -1 if side == "reactants" else 1
        rep.ob("O15.4", "R13", fi, None if sign is None else sign == want, construct,
               f"{side} enter the incidence matrix with sign {want:+d} (products minus reactants) in both the sparse and the dense branch", {"sign": sign}, node=lp if isinstance(lp, ast.For) else pm.get(lp))
    rep.need("R13", n, 4, "reactant/product loops in incidence_matrix (2 sparse + 2 dense)")


# ------------------------------------------------------------------ O15.5
def rxnside(rep):
    n = 0
    for q in ("RXNSide._normalize_any", "RXNSide.from_str"):
        fi = rep.f(RX, q)
        pm = parent_map(fi.node)
        for t, v, st in assigned_subscripts(fi.node):
            # accumulation into a local dict: $o[k] = $o.get(k, 0) + <coefficient>
            if not isinstance(t.value, ast.Name) or not isinstance(v, ast.BinOp) or pmatch("$o[$$k] = $o.get($$k, 0) + $$inc", st) is None:
                continue
            inc = v.right
            if isinstance(inc, ast.Constant):
                ok = inc.value == 1
                rep.ob("O15.5", "CMP", fi, ok, st, "a bare species label counts once", node=st)
                n += 1
                continue
            if not isinstance(inc, ast.Name):
                rep.ob("O15.5", "CMP", fi, None, st, "coefficient is neither a constant nor a variable", node=st)
                continue
            gs = [(t_, s) for t_, s in guards_of(pm, st, fi.node) if inc.id in {x.id for x in ast.walk(t_) if isinstance(x, ast.Name)}
                  and not any(isinstance(c, ast.Call) for c in ast.walk(t_))]
            try:
                table = {}
                for p in (-2, -1, 0, 1, 2, 10):
                    val = True
                    for t_, s in gs:
                        r = truth_table(t_, inc.id, [p])[p]
                        val = val and (r if s else not r)
                    table[p] = val
                ok = not table[-2] and not table[-1] and not table[0] and table[1] and table[2] and table[10]
            except Undecided:
                ok, table = None, {}
            n += 1
            rep.ob("O15.5", "CMP", fi, ok, f"{norm(st)} under {[norm(t_) for t_, _ in gs]}", "only strictly positive coefficients are stored (zero/negative are dropped)",
                   {"kept_at": {str(k): v_ for k, v_ in table.items()}}, node=st)
    rep.need("CMP", n, 6, "coefficient stores in RXNSide normalisation")
    si = rep.f(RX, "RXNSide.__setitem__")
    ifs = [x for x in walk_local(si.node) if isinstance(x, ast.If)]
    ok = None
    if ifs:
        try:
            cv = [b_["c"] for _, b_ in pfind(f"$c = int({si.params[2]})", si.node)]
            tt = truth_table(ifs[0].test, cv[0] if cv else si.params[2], [-1, 0, 1, 2])
            ok = tt == {-1: True, 0: True, 1: False, 2: False} and "pop" in norm(ifs[0].body[0])
        except Undecided:
            ok = None
    rep.ob("O15.5", "CMP", si, ok, ifs[0].test if ifs else "__setitem__", "assigning a non-positive coefficient removes the species from the side")


def mol_guards(rep):
    for q in ("set_mol_map", "assign_mol"):
        fi = rep.f(HG, CLS + q)
        cfg = CFG(fi.node)
        pm = parent_map(fi.node)
        for t, v, st in assigned_subscripts(fi.node):
            if norm(t.value) != "self.species_to_mol":
                continue
            key = norm(t.slice)
            gs = [(norm(g), s) for g, s in guards_of(pm, st, fi.node)]
            inside = (f"{key} in self.species", True) in gs
            early = [n for n in cfg.stmts() if isinstance(n, ast.If) and norm(n.test) == f"{key} not in self.species"
                     and isinstance(n.body[-1], ast.Raise)]
            ok = inside or (bool(early) and cfg.all_paths_pass(ENTRY, st, early, {early[0]: False}))
            rep.ob("O15.3", "R6c", fi, ok, st, "molecule labels are attached only to species that are present", node=st)


MUTANTS = [
    dict(name="revert F-C15 (generated id unchecked)", file=HG, expect="O15.1",
         old='        while f"{rule}_{cnt}" in self.edges:\n            cnt += 1\n', new=""),
    dict(name="explicit id guard dropped", file=HG, expect="O15.1",
         old='        else:\n            if edge_id in self.edges:\n                raise KeyError(f"Edge id {edge_id!r} already exists")\n', new=""),
    dict(name="out-edges not cleared on removal", file=HG, expect="O15.2",
         old="            self.species_to_out_edges[s].discard(edge_id)\n            if not self.species_to_in_edges.get(\n                s\n            ) and not self.species_to_out_edges.get(s):\n                self.species.discard(s)\n                self.species_to_in_edges.pop(s, None)\n                self.species_to_out_edges.pop(s, None)\n                self.species_to_mol.pop(s, None)\n        for s in list(e.products.keys()):",
         new="            if not self.species_to_in_edges.get(\n                s\n            ) and not self.species_to_out_edges.get(s):\n                self.species.discard(s)\n                self.species_to_in_edges.pop(s, None)\n                self.species_to_out_edges.pop(s, None)\n                self.species_to_mol.pop(s, None)\n        for s in list(e.products.keys()):"),
    dict(name="mol label survives pruning (remove_species)", file=HG, expect="O15.2",
         old="                self.species.discard(species)\n                self.species_to_in_edges.pop(species, None)\n                self.species_to_out_edges.pop(species, None)\n                self.species_to_mol.pop(species, None)",
         new="                self.species.discard(species)\n                self.species_to_in_edges.pop(species, None)\n                self.species_to_out_edges.pop(species, None)"),
    dict(name="shallow copy", file=HG, expect="O15.4", old="        return copy.deepcopy(self)", new="        return copy.copy(self)"),
    dict(name="dense branch adds reactants", file=HG, expect="O15.4", old="                    mat[s_idx[s], j] -= int(c)", new="                    mat[s_idx[s], j] += int(c)"),
    dict(name="zero coefficients kept", file=RX, expect="O15.5",
         old="                s, c = item\n                s = str(s)\n                c = int(c)\n                if c > 0:", new="                s, c = item\n                s = str(s)\n                c = int(c)\n                if c >= 0:"),
    dict(name="products registered as out-edges", file=HG, expect="O15.2",
         old="        for s in e.products.keys():\n            self.species_to_in_edges[s].add(edge_id)", new="        for s in e.products.keys():\n            self.species_to_out_edges[s].add(edge_id)"),
    dict(name="prune when only one index is empty", file=HG, expect="O15.2",
         old="            self.species_to_in_edges[s].discard(edge_id)\n            if not self.species_to_in_edges.get(\n                s\n            ) and not self.species_to_out_edges.get(s):",
         new="            self.species_to_in_edges[s].discard(edge_id)\n            if not self.species_to_in_edges.get(\n                s\n            ) or not self.species_to_out_edges.get(s):"),
    dict(name="remove_species strips wrong side", file=HG, expect="O15.2",
         old="            e = self.edges[eid]\n            e.products.pop(species, None)\n            self.species_to_in_edges[species].discard(eid)",
         new="            e = self.edges[eid]\n            e.reactants.pop(species, None)\n            self.species_to_in_edges[species].discard(eid)"),
    dict(name="merge writes the store directly", file=HG, expect="O15.4",
         old="            self.add_rxn(\n                (\n                    e.reactants\n                    if isinstance(e.reactants, RXNSide)",
         new="            self.edges[new_id] = e\n            self.add_rxn(\n                (\n                    e.reactants\n                    if isinstance(e.reactants, RXNSide)"),
    dict(name="assign_mol accepts unknown species", file=HG, expect="O15.3",
         old='        if species not in self.species:\n            raise KeyError(f"Unknown species {species!r}")\n        self.species_to_mol[species] = mol',
         new='        self.species_to_mol[species] = mol'),
    dict(name="conversion writes mol labels unguarded", file=CV, expect="O15.3",
         old="            s_label = ndata.get(species_label_attr, str(s_node))\n            if s_label in H.species:\n                H.species_to_mol[s_label] = ndata[mol_attr]",
         new="            s_label = ndata.get(species_label_attr, str(s_node))\n            H.species_to_mol[s_label] = ndata[mol_attr]"),
    dict(name="validation after the store write", file=HG, expect="O15.2",
         old='        if not r_side.data and not p_side.data:\n            raise ValueError("Reaction must have at least one reactant or product")\n\n        e = HyperEdge(id=edge_id, reactants=r_side, products=p_side, rule=rule)\n        self.edges[edge_id] = e\n',
         new='        e = HyperEdge(id=edge_id, reactants=r_side, products=p_side, rule=rule)\n        self.edges[edge_id] = e\n        if not r_side.data and not p_side.data:\n            raise ValueError("Reaction must have at least one reactant or product")\n'),
    dict(name="species set not updated on add", file=HG, expect="O15.2",
         old="            self.species.add(s)\n            _ = self.species_to_in_edges[s]", new="            _ = self.species_to_in_edges[s]"),
    dict(name="stored edge carries another id", file=HG, expect="O15.1",
         old="e = HyperEdge(id=edge_id, reactants=r_side, products=p_side, rule=rule)", new="e = HyperEdge(id=rule, reactants=r_side, products=p_side, rule=rule)"),
]

TWINS = [
    dict(name="id generator as for/else over a counter", file=HG,
         old='        while f"{rule}_{cnt}" in self.edges:\n            cnt += 1\n', new='        while f"{rule}_{cnt}" in self.edges:\n            cnt = cnt + 1\n'),
    dict(name="prune condition conjuncts swapped", file=HG,
         old="            self.species_to_in_edges[s].discard(edge_id)\n            if not self.species_to_in_edges.get(\n                s\n            ) and not self.species_to_out_edges.get(s):",
         new="            self.species_to_in_edges[s].discard(edge_id)\n            if not self.species_to_out_edges.get(s) and not self.species_to_in_edges.get(s):"),
    dict(name="sparse branch with explicit negative add", file=HG,
         old="                    mapping[(s, eid)] = mapping.get((s, eid), 0) - int(c)", new="                    mapping[(s, eid)] = mapping.get((s, eid), 0) - 1 * int(c)"),
]


def netfold(rep):
    from ..rules import netfold as NF
    NF.check(rep, "O15.4", (HG, RX, "synkit/CRN/Hypergraph/hyperedge.py"), "the incidence matrix disagrees with the stored reactions")
