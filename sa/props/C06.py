"""C06 - subgraph search returns exactly the label-preserving monomorphisms."""
from __future__ import annotations

import ast

from ..absval import Undecided, eval_expr
from ..cfg import CFG, EXIT, RAISE
from ..core import (AnalysisError, alpha, call_name, dotted, is_const, kwarg, local_defs, norm, origin,
                    parent_map, walk_local)
from ..facts import guards_of, returns_of, enclosing_loops
from ..rules import matcher as M
from ..rules.nonmut import mutations
from ..pattern import pmatch, pfind

SM = "synkit/Graph/Matcher/subgraph_matcher.py"
ENG = "SubgraphSearchEngine."

META = {
    "explanation": (
        "R9: host/pattern are never modified by the dispatcher or by any strategy body (alias/view tracking, callee "
        "depth 2). R13: both node_match closures are normalised on their full truth table to "
        "{eq(k) | k in node_attrs} AND host.hcount >= pattern.hcount and both edge_match closures to {eq(k) | k in "
        "edge_attrs}. R2: every GraphMatcher is built host-first, enumerated with subgraph_monomorphisms_iter (not the "
        "induced variant) and its G1->G2 dicts are inverted to pattern->host. Shape/CFG: component-aware fallback "
        "condition, used-set add/remove pairing on every exit, accumulator stored as a copy, bt = primary or all, "
        "enum dispatch, limits only truncate (break under max_results) or empty (return [] under threshold)."
    ),
    "rules": {
        "R9": "parameter non-mutation", "R13": "predicate normal form on the full truth table",
        "R2": "matcher roles, method family, result inversion (networkx contract)",
        "R6d": "acquire/release pairing of the in-use marker on the CFG",
        "R7": "accumulator stored as a copy", "SHAPE": "fallback / dispatch / limit shape",
    },
    "not_decided": "VF2's own completeness and correctness (trusted base: networkx)",
    "trusted_base": ["CPython ast", "sa/* analyser", "networkx GraphMatcher contract (G2 embeds in G1; dicts G1->G2; node_match(G1 attrs, G2 attrs))"],
    "assumptions": ["strict_cc_count is a documented configuration flag, not part of the statement"],
}

STRATS = ["_find_all_subgraph_mappings", "_find_component_aware_subgraph_mappings", "_find_bt_subgraph_mappings"]


def grouping(rep):
    """classes of atoms built with itertools.groupby must come from an input sorted by the same key (otherwise a class is split into runs)"""
    from ..rules.grouping import unsorted_groupby
    n = 0
    for q, fi in rep.repo.module(SM).funcs.items():
        if ".<locals>." in q:
            continue
        bad = unsorted_groupby(fi.node)
        if bad or any(isinstance(c, ast.Call) and norm(c.func) in ("groupby", "itertools.groupby") for c in walk_local(fi.node, into_nested=True)):
            n += 1
            rep.touch(fi)
            rep.ob("O6.5", "SHAPE", fi, not bad, alpha(bad[0][0], fi.node) if bad else "groupby over a sorted input", "candidate classes are complete: " +
                   (bad[0][1] + "; atoms of one label that are not adjacent in insertion order fall into separate runs and the later run replaces the earlier" if bad else "groupby input sorted by its key"),
                   node=bad[0][0] if bad else fi.node)
    rep.extra["groupby_sites_in_subgraph_matcher"] = n


def threshold_tests(rep):
    """inside the search strategies the enumeration threshold is compared with the number of results actually collected (`len(<list>)`);
    a test against an estimate (a product of candidate counts over-counts: it ignores the distinct-component constraint) empties result sets
    that are within the threshold.  (The optional Cartesian pre-filter `_quick_pre_filter` is an estimate by design and is not a strategy.)"""
    n = 0
    for q in STRATS:
        fi = rep.f(SM, ENG + q)
        thr = [p_ for p_ in fi.params if p_ in ("threshold", "thresh")]
        if not thr:
            continue
        T = thr[0]
        for cmp_ in [c for c in walk_local(fi.node, into_nested=True) if isinstance(c, ast.Compare) and len(c.ops) == 1]:
            sides = [cmp_.left, cmp_.comparators[0]]
            if not any(isinstance(x, ast.Name) and x.id == T for x in sides):
                continue
            other = [x for x in sides if not (isinstance(x, ast.Name) and x.id == T)][0]
            n += 1
            ok = pmatch("len($x)", other) is not None
            rep.ob("O6.5", "SHAPE", fi, ok, alpha(cmp_, fi.node), "the threshold is compared with the number of results collected so far, not with an estimate of it", node=cmp_)
    rep.need("SHAPE", n, 3, "threshold comparisons in the search strategies")


def run(rep):
    rep.run(grouping)
    rep.run(threshold_tests)
    rep.run(nonmut)
    rep.run(predicates_and_roles)
    rep.run(component_aware)
    rep.run(candidates)
    rep.run(early_returns)
    rep.run(fallback_and_dispatch)
    rep.run(limits)
    rep.run(local_caches)


def local_caches(rep):
    """a cache that lives across pattern atoms / components inside one strategy must be keyed by everything the cached candidates depend on:
    a key that is a projection of the pattern atom's data on the selected attributes does not hold `hcount`, which the node predicate compares"""
    from ..rules.memo import projection_key_sites
    n = 0
    for q in STRATS + ["find_subgraph_mappings", "_quick_pre_filter"]:
        fi = rep.f(SM, ENG + q)
        for node, why in projection_key_sites(fi):
            n += 1
            rep.ob("O6.2", "R1", fi, None if why.startswith("UNDECIDED") else False, node, "candidates cached inside a strategy are keyed by all the predicate reads: " + why, node=node)
    if not n:
        rep.ob("O6.2", "R1", f"{SM}:strategies", True, f"{len(STRATS) + 2} functions", "no strategy caches candidates under a key that is only a projection of the atom it was computed for")


def nonmut(rep):
    for q in ["find_subgraph_mappings", "_quick_pre_filter"] + STRATS:
        fi = rep.f(SM, ENG + q)
        for p in ("host", "pattern"):
            if p not in fi.params:
                raise AnalysisError(f"{fi.key}: parameter {p} vanished")
            muts = mutations(rep.repo, fi, p)
            if not muts:
                rep.ob("O6.1", "R9", fi, True, f"parameter `{p}`", f"`{p}` is never modified by {q}", node=fi.node)
            for node, why in muts:
                rep.ob("O6.1", "R9", fi, False, node, f"inputs must not be modified: {why}", node=node)


def predicates_and_roles(rep):
    n_sites = 0
    for q in STRATS[:2]:
        fi = rep.f(SM, ENG + q)
        defs = local_defs(fi.node, into_nested=True)
        ss = M.sites(fi)
        for s in ss:
            n_sites += 1
            r1, r2 = M.role(fi, s.g1, defs), M.role(fi, s.g2, defs)
            ok = True if (r1, r2) == ("HOST", "PATTERN") else (False if (r1, r2) == ("PATTERN", "HOST") else None)
            rep.ob("O6.3", "R2", fi, ok, s.call, "the matcher is built host-first (networkx embeds G2 into G1)",
                   {"G1": norm(s.g1), "role_G1": r1, "G2": norm(s.g2), "role_G2": r2}, node=s.call)
            if q == STRATS[0]:
                # the exhaustive strategy searches the whole host: a matcher built on a restriction of it (one component, a sub-view) cannot return
                # the embeddings of a disconnected pattern that spread over several parts
                from ..rules import provenance as PV
                d1 = local_defs(fi.node)
                parts = [r for r in PV.all_roots(d1, s.g1) if isinstance(r, ast.Call) and call_name(r) in ("subgraph", "induced_subgraph", "edge_subgraph", "subgraph_view")
                         and M.role(fi, r, defs) in ("HOST", "BOTH")]
                if parts:
                    rep.ob("O6.3", "R2", fi, False, parts[0], "the exhaustive strategy enumerates in the whole host (here the matcher is built on a part of it: embeddings of a "
                           "disconnected pattern that use several parts are never produced)", node=s.call)
            meths = [m for m, _ in s.methods]
            rep.ob("O6.3", "R2", fi, bool(meths) and all(m == "subgraph_monomorphisms_iter" for m in meths),
                   f"{s.var}.{meths}", "matches are enumerated as monomorphisms (non-induced), exhaustively",
                   node=s.methods[0][1] if s.methods else s.call)
            # consumption: for iso in gm...(): X.append({p: h for h, p in iso.items()})
            for m, mc in s.methods:
                loops = [l for l in walk_local(fi.node, into_nested=True) if isinstance(l, ast.For) and l.iter is mc]
                if not loops:
                    rep.ob("O6.3", "R2", fi, None, mc, "cannot see how the matcher's dicts are consumed", node=mc)
                    continue
                lp = loops[0]
                var = norm(lp.target)
                dcs = [d for d in walk_local(lp, into_nested=True) if isinstance(d, ast.DictComp)
                       and norm(d.generators[0].iter).replace(" ", "") == f"{var}.items()"]
                inv = [M.inverted_dict(d) for d in dcs]
                raw_use = [n for n in walk_local(lp, into_nested=True) if isinstance(n, ast.Call) and call_name(n) == "append"
                           and any(isinstance(a, ast.Name) and a.id == var for a in ast.walk(n))
                           and not any(isinstance(a, ast.DictComp) for a in ast.walk(n))]
                ok = bool(dcs) and all(i is True for i in inv) and not raw_use
                rep.ob("O6.3", "R2", fi, ok if (dcs or raw_use) else None, dcs[0] if dcs else lp,
                       "G1->G2 (host->pattern) dicts are inverted to pattern->host before they are returned", node=lp)
            # predicates
            for kind, expr, want_eq, want_ge in (("node_match", s.node_match, {"node_attrs"}, [("hcount", 0, 1)]),
                                                 ("edge_match", s.edge_match, {"edge_attrs"}, [])):
                if expr is None:
                    rep.ob("O6.2", "R13", fi, False, s.call, f"matcher has no {kind}: labels are ignored", node=s.call)
                    continue
                clo = M.find_closure(fi, expr)
                if clo is None:
                    rep.ob("O6.2", "R13", fi, None, expr, f"{kind} closure not found", node=s.call)
                    continue
                try:
                    pf = M.normalise_predicate(clo)
                except Undecided as exc:
                    rep.ob("O6.2", "R13", fi, None, f"{kind} in {q}", str(exc), node=clo)
                    continue
                ok = pf.exact and pf.eq_over == want_eq and sorted(pf.ge) == sorted(want_ge) and not pf.other
                what = ("node predicate == all selected attributes equal AND host hcount >= pattern hcount (first parameter = G1 = host)"
                        if kind == "node_match" else "edge predicate == all selected edge attributes equal")
                rep.ob("O6.2", "R13", fi, ok, f"{kind}({', '.join(pf.params)})", what,
                       {"eq_over": sorted(pf.eq_over), "ge": pf.ge, "unexpected_atoms": pf.other, "exact": pf.exact,
                        "detail": pf.detail}, node=clo)
    rep.need("R2", n_sites, 2, "GraphMatcher construction sites in the strategies")


def _greedy_reservation(fn) -> bool:
    """`for x in items: free = next((c for c in cands(x) if c not in taken), None); if free is None: return False; taken.add(free)` with no un-reserving
    and no recursion: a first-free reservation.  It can answer "impossible" although a complete assignment exists (an earlier item takes the only
    candidate a later one could use)."""
    taken = set()
    for c in ast.walk(fn):
        if isinstance(c, ast.Call) and isinstance(c.func, ast.Attribute) and c.func.attr == "add" and isinstance(c.func.value, ast.Name):
            taken.add(c.func.value.id)
    if not taken:
        return False
    undo = any(isinstance(c, ast.Call) and isinstance(c.func, ast.Attribute) and c.func.attr in ("remove", "discard", "pop") and isinstance(c.func.value, ast.Name)
               and c.func.value.id in taken for c in ast.walk(fn))
    recursive = any(isinstance(c, ast.Call) and call_name(c) == fn.name for c in ast.walk(fn))
    first_free = any(isinstance(c, ast.Call) and call_name(c) == "next" and c.args and isinstance(c.args[0], ast.GeneratorExp)
                     and any(isinstance(t, ast.Compare) and isinstance(t.ops[0], ast.NotIn) and norm(t.comparators[0]) in taken for g in c.args[0].generators for t in g.ifs)
                     for c in ast.walk(fn))
    gives_up = any(isinstance(r, ast.Return) and is_const(r.value, False) for r in ast.walk(fn))
    return first_free and gives_up and not undo and not recursive


def component_aware(rep):
    fi = rep.f(SM, ENG + STRATS[1])
    defs = local_defs(fi.node)
    pm = parent_map(fi.node)
    # an empty answer before the back-tracking needs a reason that holds for every assignment of pattern components to host components: a helper that
    # reserves host components greedily (first free one) gives up although the back-tracking would have found an assignment
    for r in [r for r in walk_local(fi.node) if isinstance(r, ast.Return) and isinstance(r.value, ast.List) and not r.value.elts]:
        for t, sn in guards_of(pm, r, fi.node):
            for c in [c for c in ast.walk(t) if isinstance(c, ast.Call) and isinstance(c.func, ast.Attribute) and isinstance(c.func.value, ast.Name)
                      and c.func.value.id in ("SubgraphSearchEngine", "self", "cls")]:
                helper = rep.repo.maybe_func(SM, ENG + c.func.attr)
                if helper is None or c.func.attr in STRATS or c.func.attr == "_quick_pre_filter":
                    continue
                if _greedy_reservation(helper.node):
                    rep.ob("O6.4", "SHAPE", fi, False, c, f"the component-aware strategy answers [] only when no assignment of pattern components to distinct host components "
                           f"exists (`{c.func.attr}` reserves the first free host component per pattern component and never revises: it can say 'impossible' when an "
                           "assignment exists)", node=r)
                else:
                    rep.ob("O6.4", "SHAPE", fi, None, c, f"the empty answer depends on `{c.func.attr}`, a test this rule does not read", node=r)
    # fallback to the exhaustive strategy exactly when #components(host) < #components(pattern)
    fb = None
    for st in fi.node.body:
        if isinstance(st, ast.If) and len(st.body) == 1 and isinstance(st.body[0], ast.Return) \
                and isinstance(st.body[0].value, ast.Call) and call_name(st.body[0].value) == STRATS[0]:
            fb = st
    pcc = None
    if fb is None:
        rep.ob("O6.4", "SHAPE", fi, False, "if <host components> < <pattern components>: return _find_all_subgraph_mappings(...)",
               "with fewer host components than pattern components the exhaustive set is returned")
    else:
        verdict, facts = fallback_condition(fi, fb.test)
        rep.ob("O6.4", "SHAPE", fi, verdict, fb.test, "exhaustive fallback is taken exactly when the host has fewer connected components than the pattern", facts, node=fb)
        if facts.get("left_counts") == "PATTERN":
            pcc = facts.get("left")
        elif facts.get("right_counts") == "PATTERN":
            pcc = facts.get("right")
        c = fb.body[0].value
        callee = rep.f(SM, ENG + STRATS[0])
        names = [norm(a) for a in c.args]
        rep.ob("O6.4", "SHAPE", fi, names == callee.params[: len(names)] and len(names) == len(callee.params), c,
               "the fallback searches the same host/pattern with the same attribute selections and limits",
               {"args": names, "params": callee.params}, node=c)
    # back-tracking bookkeeping
    bt = rep.f(SM, ENG + STRATS[1] + ".<locals>.backtrack")
    bpm = parent_map(bt.node)
    cfg = CFG(bt.node)
    level, acc = bt.params[0], bt.params[1]
    branch = [l for l in walk_local(bt.node) if isinstance(l, ast.For) and isinstance(l.target, ast.Tuple) and len(l.target.elts) == 2
              and pmatch("$o[$lv]", l.iter, {"lv": level}) is not None]
    rep.need("R6d", len(branch), 1, "branching loop `for hi, m in <ordered>[level]` in backtrack")
    lp = branch[0]
    hi, m = [norm(e) for e in lp.target.elts]
    # the in-use marker: a set that receives .add(hi) in the loop
    adds = [(n, b) for n, b in pfind("$u.add($h)", lp, {"h": hi})]
    if not adds:
        # functional style: the occupied host components travel down the recursion as a parameter that the loop tests (`if hi in claimed: continue`);
        # every recursive call must hand down that set plus the component just taken - a call that passes anything else forgets the reservations
        marks = [p_ for p_ in bt.params[1:] if any(pmatch(f"{hi} in {p_}", t) is not None or pmatch(f"{hi} not in {p_}", t) is not None
                                                  for n_ in walk_local(lp) if isinstance(n_, ast.If) for t in ast.walk(n_.test))]
        recs = [c_ for c_ in walk_local(lp) if isinstance(c_, ast.Call) and isinstance(c_.func, ast.Name) and c_.func.id == bt.node.name]
        if len(marks) == 1 and recs:
            pos = bt.params.index(marks[0])
            for c_ in recs:
                arg = c_.args[pos] if pos < len(c_.args) else kwarg(c_, marks[0])
                names_ = {x.id for x in ast.walk(arg) if isinstance(x, ast.Name)} if arg is not None else set()
                okf = None if arg is None else (marks[0] in names_ and hi in names_) or (False if marks[0] not in names_ else None)
                rep.ob("O6.4", "R6d", bt, okf, c_, f"the recursive call hands down the occupied host components `{marks[0]}` extended by `{hi}` "
                       "(a call that passes another set lets later pattern components re-use a host component)", {"passed": norm(arg) if arg is not None else None}, node=c_)
    rep.need("R6d", len(adds), 1, "<used>.add(hi) in backtrack")
    used = adds[0][1]["u"]
    rems = [n for n, b in pfind("$u.remove($h)", lp, {"u": used, "h": hi})] + [n for n, b in pfind("$u.discard($h)", lp, {"u": used, "h": hi})]
    for a, _b in adds:
        a_st = cfg.stmt_of(a)
        rel = [cfg.stmt_of(r) for r in rems]
        ok = bool(rel)
        if ok:
            for target in [EXIT, RAISE, lp]:
                if not _all_paths_release(cfg, a_st, target, rel):
                    ok = False
        rep.ob("O6.4", "R6d", bt, ok, a, f"`{used}.add({hi})` is released on every path out of the iteration "
               "(otherwise later branches lose valid host components)", {"releases": len(rel)}, node=a)
    # skips: only (host component in use) or (pattern node already placed)
    consulted = False
    for ex in [n for n in walk_local(lp) if isinstance(n, (ast.Continue, ast.Break))]:
        gs = guards_of(bpm, ex, lp)
        parts = []
        for t, s_ in gs:
            parts += (t.values if isinstance(t, ast.BoolOp) and isinstance(t.op, ast.Or) else [t])
        kinds = []
        for v in parts:
            if pmatch("$h in $u", v, {"h": hi, "u": used}) is not None:
                kinds.append("in-use")
                consulted = True
            elif pmatch("any(($p in $a for $p in $m))", v, {"a": acc, "m": m}) is not None:
                kinds.append("already-placed")
            else:
                kinds.append("OTHER:" + norm(v)[:50])
        ok_skip = isinstance(ex, ast.Continue) and bool(kinds) and all(k in ("in-use", "already-placed") for k in kinds)
        rep.ob("O6.4", "R6d", bt, ok_skip, f"{type(ex).__name__.lower()} under {kinds}",
               "a candidate placement is skipped only because its host component is in use or one of its pattern nodes is already placed "
               "(any further 'symmetry breaking' drops assignments that send different pattern components to different host components)", node=ex)
    rep.ob("O6.4", "R6d", bt, consulted, f"skip test consults `{used}`", "a host component already in use is skipped (different pattern components go to different host components)", node=lp)
    for ex in [n for n in walk_local(lp) if isinstance(n, ast.Return)]:
        gtxt = " ".join(norm(t) for t, s_ in guards_of(bpm, ex, lp))
        rep.ob("O6.4", "R6d", bt, "max_results" in gtxt or "threshold" in gtxt, f"return under `{gtxt}`", "the back-tracking stops early only on the result limits", node=ex)
    # acc.update(m) undone
    upd = [n for n, b in pfind("$a.update($m)", lp, {"a": acc, "m": m})]
    pops = [n for n, b in pfind("$a.pop($$k)", lp, {"a": acc})]
    dels = [d for d in walk_local(lp) if isinstance(d, ast.Delete)]
    rep.ob("O6.4", "R6d", bt, len(upd) == 1, upd[0] if upd else f"{acc}.update({m})", "the candidate's pattern nodes are added to the partial mapping", node=lp)
    for u in upd:
        u_st = cfg.stmt_of(u)
        rel = [cfg.stmt_of(p_) for p_ in pops] + dels
        for p_ in pops:
            for l in enclosing_loops(bpm, p_, lp)[:1]:
                if norm(l.iter) == m:
                    rel.append(l)
        ok = bool(rel) and all(_all_paths_release(cfg, u_st, t, rel) for t in [EXIT, RAISE, lp])
        rep.ob("O6.4", "R6d", bt, ok, u, "the partial mapping is restored after each branch", node=u)
    # stored as a copy at full depth
    apps = [(n, b) for n, b in pfind("$r.append($$x)", bt.node) if not any(x is n for x in ast.walk(lp))]
    rep.need("R7", len(apps), 1, "<results>.append(...) in backtrack")
    res_name = apps[0][1]["r"]
    for c, b in apps:
        a0 = c.args[0]
        is_copy = pmatch("$a.copy()", a0, {"a": acc}) is not None or pmatch("dict($a)", a0, {"a": acc}) is not None
        rep.ob("O6.4", "R7", bt, is_copy, c, "the accumulator is stored as a copy (it is mutated afterwards)", node=c)
        gs = guards_of(bpm, c, bt.node)
        full = any(s_ and isinstance(t, ast.Compare) and isinstance(t.ops[0], ast.Eq) and {norm(t.left), norm(t.comparators[0])} == {level, pcc or "pcc"} for t, s_ in gs)
        rep.ob("O6.4", "SHAPE", bt, full, f"append under {[norm(t) for t, _ in gs]}",
               "a combined mapping is emitted only when every pattern component is placed", node=c)
    rets = returns_of(fi.node)
    rep.ob("O6.4", "SHAPE", fi, bool(rets) and norm(rets[-1].value) == res_name, rets[-1] if rets else "return", "the strategy returns the list the back-tracking fills")
    start = [n for n, b in pfind("backtrack(0, {})", fi.node, into_nested=False)]
    rep.ob("O6.4", "SHAPE", fi, len(start) == 1, start[0] if start else "backtrack(0, {})", "the search starts at the first pattern component with an empty mapping")


def _count_of(fi, defs, expr):
    """('HOST'|'PATTERN'|None, exact) when expr is the number of connected components of host / pattern.
    exact=False if the counted list was filtered or re-bound (it is then not *the* component list)."""
    e = expr
    if isinstance(e, ast.Name):
        ds = defs.get(e.id, [])
        if len(ds) == 1 and ds[0].index is not None and isinstance(ds[0].value, ast.Tuple):
            e = ds[0].value.elts[ds[0].index[0]]
        elif len(ds) == 1 and ds[0].kind == "assign":
            e = ds[0].value
        else:
            return None, False
    if not (isinstance(e, ast.Call) and isinstance(e.func, ast.Name) and e.func.id == "len" and e.args):
        return None, False
    lst = e.args[0]
    if not isinstance(lst, ast.Name):
        return None, False
    ds = [d for d in defs.get(lst.id, []) if d.kind != "param"]
    exact = len(ds) == 1
    who = None
    for d in ds:
        v = d.value
        if isinstance(v, ast.ListComp):
            src = norm(v.generators[0].iter)
            if "connected_components(host)" in src:
                who = "HOST"
            elif "connected_components(pattern)" in src:
                who = "PATTERN"
            if v.generators[0].ifs:
                exact = False
        elif isinstance(v, ast.Call) and "connected_components" in norm(v):
            who = "HOST" if "(host)" in norm(v) else ("PATTERN" if "(pattern)" in norm(v) else who)
        else:
            exact = False
    return who, exact


def fallback_condition(fi, test):
    """True iff `test` == (#components(host) < #components(pattern)) on exact component counts"""
    defs = local_defs(fi.node)
    if not (isinstance(test, ast.Compare) and len(test.ops) == 1):
        return None, {"why": "not a single comparison"}
    l, r = test.left, test.comparators[0]
    wl, xl = _count_of(fi, defs, l)
    wr, xr = _count_of(fi, defs, r)
    facts = {"left": norm(l), "left_counts": wl, "left_exact": xl, "right": norm(r), "right_counts": wr, "right_exact": xr}
    if {wl, wr} != {"HOST", "PATTERN"}:
        return None, facts
    if not (xl and xr):
        facts["why"] = "the compared count is taken from a filtered / re-bound component list, not from the host's (pattern's) component list"
        return False, facts
    try:
        bad = []
        for h in range(0, 4):
            for p in range(1, 4):
                env = {norm(l): h if wl == "HOST" else p, norm(r): h if wr == "HOST" else p}
                if bool(eval_expr(test, env)) != (h < p):
                    bad.append((h, p))
        facts["disagreements(h,p)"] = bad[:4]
        return (not bad), facts
    except Undecided as exc:
        facts["why"] = str(exc)
        return None, facts


def _all_paths_release(cfg, src, dst, releases) -> bool:
    """every path src -> dst (not re-entering src) passes a release statement"""
    import networkx as nx
    g = cfg.g.copy()
    for r in releases:
        if r in g:
            g.remove_node(r)
    if src not in g or dst not in g:
        return True
    # paths that start at src's successors
    for s in list(g.successors(src)):
        if s == dst or nx.has_path(g, s, dst):
            return False
    return True


def fallback_and_dispatch(rep):
    bt = rep.f(SM, ENG + STRATS[2])
    defs = local_defs(bt.node)
    rets = returns_of(bt.node)
    pm = parent_map(bt.node)
    prim = [nm for nm, ds in defs.items() for d_ in ds if d_.kind == "assign" and isinstance(d_.value, ast.Call) and call_name(d_.value) == STRATS[1]]
    short = [r for r in rets if isinstance(r.value, ast.BoolOp) and isinstance(r.value.op, ast.Or) and len(r.value.values) == 2
             and all(isinstance(v_, ast.Call) for v_ in r.value.values) and [call_name(v_) for v_ in r.value.values] == [STRATS[1], STRATS[0]]]
    if not prim and len(short) == 1 and len(rets) == 1:
        # `return <component-aware>(...) or <exhaustive>(...)`: the non-empty first result, else the second
        okb = True
        for c, q in zip(short[0].value.values, (STRATS[1], STRATS[0])):
            cal = rep.f(SM, ENG + q)
            names = [norm(a) for a in c.args]
            okb = okb and names == cal.params[: len(names)] and len(names) == len(cal.params)
        rep.ob("O6.5", "SHAPE", bt, okb, "return <component-aware>(...) or <exhaustive>(...)",
               "bt returns the component-aware result when non-empty and the exhaustive result otherwise (same arguments)")
        _dispatch(rep)
        return
    rep.need("SHAPE", len(prim), 1, "primary = <component-aware search>(...) in the bt strategy")
    P0 = prim[0]
    kinds = []
    for r in rets:
        gs = [(norm(t), s_) for t, s_ in guards_of(pm, r, bt.node, early=True)]
        if isinstance(r.value, ast.Name) and r.value.id == P0:
            ok_r = (P0, True) in gs
            kinds.append("primary")
            rep.ob("O6.5", "SHAPE", bt, ok_r, f"return <component-aware result> under {gs}",
                   "the component-aware result is returned only when it is non-empty (an empty one must fall through to the exhaustive search)", node=r)
        elif isinstance(r.value, ast.Call) and call_name(r.value) == STRATS[0]:
            ok_r = set(gs) <= {(P0, False)}
            kinds.append("all")
            rep.ob("O6.5", "SHAPE", bt, ok_r, f"return <exhaustive search> under {gs}", "otherwise the exhaustive result is returned, unconditionally", node=r)
        else:
            kinds.append("other")
            rep.ob("O6.5", "SHAPE", bt, False, r, "bt returns either the non-empty component-aware result or the exhaustive result, nothing else", node=r)
    ok = sorted(set(kinds)) == ["all", "primary"]
    if ok:
        src0 = [d_.value for d_ in defs[P0] if d_.kind == "assign"][0]
        r1 = [r.value for r in rets if isinstance(r.value, ast.Call) and call_name(r.value) == STRATS[0]][0]
        for c, q in ((src0, STRATS[1]), (r1, STRATS[0])):
            cal = rep.f(SM, ENG + q)
            names = [norm(a) for a in c.args]
            ok = ok and names == cal.params[: len(names)] and len(names) == len(cal.params)
    rep.ob("O6.5", "SHAPE", bt, ok, rets[0] if rets else "return",
           "bt returns the component-aware result when non-empty and the exhaustive result otherwise (same arguments)")
    _dispatch(rep)


def _dispatch(rep):
    fi = rep.f(SM, ENG + "find_subgraph_mappings")
    pm = parent_map(fi.node)
    calls = {}
    extra_conds = {}   # strategy -> conditions under which a shared call site uses this strategy's function object
    n_calls = 0
    fdefs0 = local_defs(fi.node)
    from ..facts import if_cases
    for c in walk_local(fi.node):
        if isinstance(c, ast.Call) and call_name(c) in STRATS:
            calls[call_name(c)] = c
            extra_conds[call_name(c)] = ()
            n_calls += 1
        elif isinstance(c, ast.Call) and isinstance(c.func, ast.Name) and c.func.id in fdefs0:
            # fn = <engine>._find_x if cond else <engine>._find_y ; results = fn(...)
            for d_ in fdefs0[c.func.id]:
                if d_.kind != "assign" or d_.value is None:
                    continue
                for conds, leaf in if_cases(d_.value):
                    if isinstance(leaf, ast.Attribute) and leaf.attr in STRATS:
                        calls[leaf.attr] = c
                        extra_conds[leaf.attr] = conds
                        n_calls += 1
    rep.need("SHAPE", n_calls, 3, "strategy calls in find_subgraph_mappings")
    for q in STRATS:
        if q not in calls:
            rep.ob("O6.5", "SHAPE", fi, False, f"no call to {q}", "every strategy of the enum is dispatched to its own search", node=fi.node)
    # the dispatch variable: `<strat> = Strategy.from_string(strategy)`; the effective threshold: `<thresh> = threshold if ... else DEFAULT`
    sv = pfind("$s = Strategy.from_string(strategy)", fi.node, into_nested=False)
    strat = sv[0][1]["s"] if sv else "strat"
    tv = [(n, b) for n, b in pfind("$t = $$e", fi.node, into_nested=False) if isinstance(n, ast.Assign) and isinstance(n.value, ast.IfExp) and "threshold" in norm(n.value)]
    thresh = tv[0][1]["t"] if tv else "thresh"
    own = {STRATS[0]: "ALL", STRATS[1]: "COMPONENT", STRATS[2]: "BACKTRACK"}
    members = ("ALL", "COMPONENT", "BACKTRACK")

    def reached(c, value, more=()):
        """do the strategy-related guards of call c hold when the dispatch variable is Strategy.<value>?"""
        env = {strat: value}
        env.update({f"Strategy.{m_}": m_ for m_ in members + ("PARTIAL",)})
        for t, sense in list(guards_of(pm, c, fi.node)) + list(more):
            if strat not in {x.id for x in ast.walk(t) if isinstance(x, ast.Name)}:
                continue
            t2 = ast.parse(norm(t).replace(" is not ", " != ").replace(" is ", " == "), mode="eval").body
            if bool(eval_expr(t2, env)) != sense:
                return False
        return True
    for q, c in calls.items():
        try:
            table = {m_: reached(c, m_, extra_conds.get(q, ())) for m_ in members}
            okd = table == {m_: (m_ == own[q]) for m_ in members}
        except Undecided as exc:
            table, okd = {"undecided": str(exc)}, None
        rep.ob("O6.5", "SHAPE", fi, okd, f"{q} reached for {[m_ for m_, v_ in table.items() if v_ is True]}", "the strategy enum selects the like-named search", {"reached_for": table}, node=c)
        cal = rep.f(SM, ENG + q)
        names = [norm(a) for a in c.args]
        renamed = [{thresh: "threshold"}.get(n, n) for n in names]
        rep.ob("O6.5", "SHAPE", fi, renamed == cal.params[: len(names)] and len(names) == len(cal.params), c,
               "arguments are bound to the like-named parameters", {"args": names, "params": cal.params}, node=c)
    # final guard
    from ..facts import final_return_expr
    fre = final_return_expr(fi.node)
    rets = returns_of(fi.node)
    ok = None
    if isinstance(fre, ast.IfExp):
        v = fre
        def _assigned_to(c):
            n = pm.get(c)
            while isinstance(n, ast.IfExp):
                n = pm.get(n)
            return n if isinstance(n, ast.Assign) else None
        res_names = {norm(_assigned_to(c).targets[0]) for c in calls.values() if _assigned_to(c) is not None}
        res = list(res_names)[0] if len(res_names) == 1 else "results"
        try:
            table = []
            for n_, t in ((0, 5), (5, 5), (6, 5)):
                empt = bool(eval_expr(v.test, {f"len({res})": n_, thresh: t}))
                table.append((n_, t, empt))
            ok = [e for _, _, e in table] == [False, False, True] and isinstance(v.body, ast.List) and not v.body.elts \
                and norm(v.orelse) == res and len(res_names) == 1
        except Undecided:
            ok = None
    rep.ob("O6.5", "SHAPE", fi, ok, rets[-1] if rets else "return", "past the threshold the result of the selected strategy is emptied, otherwise returned unchanged")
    th = defs_thresh = local_defs(fi.node).get(thresh, [])
    ok = bool(th) and pmatch("threshold if threshold is not None else $$d", th[0].value) is not None \
        and pmatch("threshold if threshold is not None else $$d", th[0].value)["d"].endswith("DEFAULT_THRESHOLD")
    rep.ob("O6.5", "SHAPE", fi, ok if th else None, th[0].stmt if th else "thresh", "the effective threshold is the caller's, else the default")
    # pre-filter only when requested
    pf = [c for c in walk_local(fi.node) if isinstance(c, ast.Call) and call_name(c) == "_quick_pre_filter"]
    for c in pf:
        gs = guards_of(pm, c, fi.node)
        inside = any("pre_filter" in norm(t) for t, _ in gs) or any(
            isinstance(t, ast.BoolOp) and isinstance(t.op, ast.And) and norm(t.values[0]) == "pre_filter"
            for t in [n for n in walk_local(fi.node) if isinstance(n, ast.BoolOp) and any(x is c for x in ast.walk(n))])
        rep.ob("O6.5", "SHAPE", fi, inside, c, "the cartesian pre-filter runs only when pre_filter is requested", node=c)


def limits(rep):
    for q in STRATS[:2]:
        fi = rep.f(SM, ENG + q)
        pm = parent_map(fi.node)
        iso_loops = [l for l in walk_local(fi.node, into_nested=True) if isinstance(l, ast.For)
                     and isinstance(l.iter, ast.Call) and call_name(l.iter) in M.SUB_METHODS]
        rep.need("SHAPE", len(iso_loops), 1, f"enumeration loop in {q}")
        for lp in iso_loops:
            outer = enclosing_loops(pm, lp, fi.node)
            scope = outer[-1] if outer else lp
            inside_enum = {id(x) for x in walk_local(lp)}
            for ex in [n for n in walk_local(scope) if isinstance(n, (ast.Break, ast.Return)) or (isinstance(n, ast.Continue) and id(n) in inside_enum)]:
                gs = guards_of(pm, ex, scope)
                txt = " and ".join(norm(t) for t, _ in gs)
                if isinstance(ex, ast.Break):
                    ok = any(s and "max_results" in norm(t) for t, s in gs)
                    what = "enumeration is cut short only by max_results (truncation)"
                elif isinstance(ex, ast.Return) and isinstance(ex.value, ast.Name) and any(s and "max_results" in norm(t) for t, s in gs) \
                        and any(isinstance(r_.value, ast.Name) and r_.value.id == ex.value.id and not guards_of(pm, r_, fi.node, early=False) for r_ in returns_of(fi.node) if r_ is not ex):
                    ok = True   # same as `break` followed by the function's final `return <results>`
                    what = "enumeration is cut short only by max_results (truncation)"
                elif isinstance(ex, ast.Return):
                    empty = isinstance(ex.value, ast.List) and not ex.value.elts
                    nocand = any(isinstance(t_, ast.Name) and not s_ for t_, s_ in gs)
                    ok = bool(gs) and empty and ("threshold" in txt or nocand)
                    what = "an early return inside the enumeration empties the result and is guarded by the threshold (or no candidates)"
                else:
                    ok = False
                    what = "no match is skipped inside the enumeration loop"
                rep.ob("O6.5", "SHAPE", fi, ok, f"{type(ex).__name__.lower()} under `{txt}`", what, node=ex)
            # every enumerated dict is recorded: the append is unconditional in the loop body
            apps = [c for c in walk_local(lp) if isinstance(c, ast.Call) and call_name(c) == "append"]
            okA = bool(apps) and not guards_of(pm, apps[0], lp)
            rep.ob("O6.5", "SHAPE", fi, okA, apps[0] if apps else lp, "every enumerated match is recorded (no filter, no de-duplication)",
                   node=apps[0] if apps else lp)


def _size_rejection(test, defs, host="host", pattern="pattern"):
    """True iff `test` is a disjunction of `<count>(pattern) > <count>(host)` for the same count (nodes or edges): the only
    cheap rejections that are necessary conditions of a (non-induced) embedding"""
    parts = test.values if isinstance(test, ast.BoolOp) and isinstance(test.op, ast.Or) else [test]
    for t in parts:
        if not (isinstance(t, ast.Compare) and len(t.ops) == 1 and isinstance(t.ops[0], (ast.Lt, ast.Gt))):
            return False
        small, big = (t.left, t.comparators[0]) if isinstance(t.ops[0], ast.Lt) else (t.comparators[0], t.left)
        a, b = norm(origin(defs, small)), norm(origin(defs, big))  # a < b
        ok = any(a == f"{host}.{f}()" and b == f"{pattern}.{f}()" for f in ("number_of_nodes", "number_of_edges", "order", "size")) \
            or (a == f"len({host})" and b == f"len({pattern})")
        if not ok:
            return False
    return True


def early_returns(rep):
    """function-level returns of the exhaustive strategy that come before the enumeration"""
    fi = rep.f(SM, ENG + STRATS[0])
    pm = parent_map(fi.node)
    defs = local_defs(fi.node)
    ss = M.sites(fi)
    rep.need("R2", len(ss), 1, "matcher construction in the exhaustive strategy")
    first = ss[0].call.lineno
    n = 0
    for r in [x for x in walk_local(fi.node) if isinstance(x, ast.Return) and x.lineno < first]:
        n += 1
        gs = guards_of(pm, r, fi.node, early=True)
        ok = bool(gs) and isinstance(r.value, ast.List) and not r.value.elts and all(s_ and _size_rejection(t, defs) for t, s_ in gs)
        rep.ob("O6.3", "FILTER", fi, ok, f"return {norm(r.value) if r.value is not None else None} under {[norm(t) for t, _ in gs]}",
               "a rejection before the enumeration must be a necessary condition of a label-preserving monomorphism (pattern has more nodes / more edges); "
               "degree sequences, equal sizes etc. are isomorphism criteria and empty valid result sets", node=r)
    if n == 0:
        rep.ob("O6.3", "FILTER", fi, True, "no early return", "the exhaustive strategy enumerates without a pre-screen", node=fi.node)


MUTANTS = [
    dict(name="hcount comparison flipped (all)", file=SM, expect="O6.2",
         old='            return all(nh.get(k) == np.get(k) for k in node_attrs) and nh.get(\n                "hcount", 0\n            ) >= np.get("hcount", 0)',
         new='            return all(nh.get(k) == np.get(k) for k in node_attrs) and nh.get(\n                "hcount", 0\n            ) <= np.get("hcount", 0)'),
    dict(name="edge_match ignores labels (comp)", file=SM, expect="O6.2",
         old="        def edge_match(eh: EdgeAttr, ep: EdgeAttr) -> bool:\n            return all(eh.get(a) == ep.get(a) for a in edge_attrs)",
         new="        def edge_match(eh: EdgeAttr, ep: EdgeAttr) -> bool:\n            return True"),
    dict(name="induced enumeration in comp", file=SM, expect="O6.3",
         old="                for iso in gm.subgraph_monomorphisms_iter():\n                    maps.append", new="                for iso in gm.subgraph_isomorphisms_iter():\n                    maps.append"),
    dict(name="accumulator stored by reference", file=SM, expect="O6.4", old="results.append(acc.copy())", new="results.append(acc)"),
    dict(name="used.remove deleted", file=SM, expect="O6.4", old="                used.remove(hi)\n", new=""),
    dict(name="used.remove after early return", file=SM, expect="O6.4",
         old="                used.remove(hi)\n                if max_results and len(results) >= max_results:\n                    return\n                if len(results) > threshold:\n                    return",
         new="                if max_results and len(results) >= max_results:\n                    return\n                if len(results) > threshold:\n                    return\n                used.remove(hi)"),
    dict(name="fallback on <=", file=SM, expect="O6.4", old="        if hcc < pcc:\n", new="        if hcc <= pcc:\n"),
    dict(name="matcher pattern-first in comp", file=SM, expect="O6.3",
         old="                gm = GraphMatcher(\n                    host_ccs[i], pc, node_match=node_match, edge_match=edge_match\n                )",
         new="                gm = GraphMatcher(\n                    pc, host_ccs[i], node_match=node_match, edge_match=edge_match\n                )"),
    dict(name="final guard uses >=", file=SM, expect="O6.5", old="return [] if len(results) > thresh else results", new="return [] if len(results) >= thresh else results"),
    dict(name="bt always merges", file=SM, expect="O6.5",
         old="        if primary:\n            return primary\n        return SubgraphSearchEngine._find_all_subgraph_mappings(",
         new="        if len(primary) > 1:\n            return primary\n        return SubgraphSearchEngine._find_all_subgraph_mappings("),
    dict(name="node_match drops charge via hard-coded attrs", file=SM, expect="O6.2",
         old="            if any(nh.get(a) != np.get(a) for a in node_attrs):\n                return False",
         new="            if any(nh.get(a) != np.get(a) for a in node_attrs[:1]):\n                return False"),
    dict(name="result not inverted in all", file=SM, expect="O6.3",
         old="            results.append({p: h for h, p in iso.items()})", new="            results.append(dict(iso))"),
    dict(name="strategy mutates the host", file=SM, expect="O6.1",
         old='        gm = GraphMatcher(host, pattern, node_match=node_match, edge_match=edge_match)\n        results: List[MappingDict] = []',
         new='        host.remove_nodes_from([n for n in host if host.degree(n) == 0])\n        gm = GraphMatcher(host, pattern, node_match=node_match, edge_match=edge_match)\n        results: List[MappingDict] = []'),
    dict(name="duplicate maps skipped silently", file=SM, expect="O6.5",
         old="            results.append({p: h for h, p in iso.items()})\n",
         new="            if len(results) % 2:\n                continue\n            results.append({p: h for h, p in iso.items()})\n"),
    dict(name="dispatch COMPONENT runs bt", file=SM, expect="O6.5",
         old="        elif strat is Strategy.COMPONENT:\n            results = SubgraphSearchEngine._find_component_aware_subgraph_mappings(",
         new="        elif strat is Strategy.COMPONENT:\n            results = SubgraphSearchEngine._find_bt_subgraph_mappings("),
    dict(name="used marker not consulted", file=SM, expect="O6.4",
         old="                if hi in used or any(p in acc for p in m):", new="                if any(p in acc for p in m):"),
    dict(name="hcount equality instead of >= (comp)", file=SM, expect="O6.2",
         old='            return nh.get("hcount", 0) >= np.get("hcount", 0)\n\n        def edge_match(eh: EdgeAttr, ep: EdgeAttr) -> bool:\n            return all(eh.get(a) == ep.get(a) for a in edge_attrs)',
         new='            return nh.get("hcount", 0) == np.get("hcount", 0)\n\n        def edge_match(eh: EdgeAttr, ep: EdgeAttr) -> bool:\n            return all(eh.get(a) == ep.get(a) for a in edge_attrs)'),
]

TWINS = [
    dict(name="defensive copies removed (strategies do not mutate)", file=SM,
         old="        host = host.copy()\n        pattern = pattern.copy()\n", new=""),
    dict(name="node_match as explicit loop", file=SM,
         old='            return all(nh.get(k) == np.get(k) for k in node_attrs) and nh.get(\n                "hcount", 0\n            ) >= np.get("hcount", 0)',
         new='            for k in node_attrs:\n                if nh.get(k) != np.get(k):\n                    return False\n            return np.get("hcount", 0) <= nh.get("hcount", 0)'),
    dict(name="keyword construction of the matcher", file=SM,
         old="gm = GraphMatcher(host, pattern, node_match=node_match, edge_match=edge_match)",
         new="gm = GraphMatcher(G1=host, G2=pattern, node_match=node_match, edge_match=edge_match)"),
    dict(name="fallback condition mirrored", file=SM, old="        if hcc < pcc:\n", new="        if pcc > hcc:\n"),
]


# ------------------------------------------------------------------ candidate collection of the component-aware strategy
def candidates(rep):
    """per pattern component: every host component that is large enough is tried, and the tag stored with a partial
    embedding identifies that host component in the index space of THE host component list (the `used` set of the
    back-tracking compares tags of different pattern components)."""
    fi = rep.f(SM, ENG + STRATS[1])
    defs = local_defs(fi.node)
    pm = parent_map(fi.node)
    HC = [nm for nm, ds in defs.items() for d_ in ds if d_.kind == "assign" and isinstance(d_.value, ast.ListComp)
          and "connected_components(host)" in norm(d_.value.generators[0].iter)]
    PC = [nm for nm, ds in defs.items() for d_ in ds if d_.kind == "assign" and isinstance(d_.value, ast.ListComp)
          and "connected_components(pattern)" in norm(d_.value.generators[0].iter)]
    rep.need("SHAPE", len(HC) + len(PC), 2, "host / pattern component lists")
    HC, PC = HC[0], PC[0]
    outer = [l for l in fi.node.body if isinstance(l, ast.For) and norm(l.iter) == PC]
    rep.need("SHAPE", len(outer), 1, "loop over the pattern components")
    ol = outer[0]
    pc = norm(ol.target)
    ss = [s for s in M.sites(fi) if any(x is s.call for x in ast.walk(ol))]
    rep.need("R2", len(ss), 1, "matcher construction per pattern component")
    s = ss[0]
    apps = [(n, b) for n, b in pfind("$maps.append(($tag, $$m))", ol)]
    rep.need("SHAPE", len(apps), 1, "<maps>.append((tag, mapping))")
    tag = apps[0][1]["tag"]
    # where does the tag come from?
    tag_loops = [l for l in enclosing_loops(pm, apps[0][0], ol) if tag in {x.id for x in ast.walk(l.target) if isinstance(x, ast.Name)}]
    ok_space = ok_graph = False
    filt = []          # (test, sense, host-component name) conditions under which a host component is tried
    breaks = []
    dom = "?"
    if tag_loops:
        L = tag_loops[0]
        hcn = None
        em = pmatch(f"enumerate({HC})", L.iter)
        if em is not None and isinstance(L.target, ast.Tuple) and norm(L.target.elts[0]) == tag:
            # for i, hc in enumerate(host_ccs): ... (filter = guards of the matcher construction)
            ok_space, hcn, dom = True, norm(L.target.elts[1]), f"enumerate({HC})"
            filt = [(t, s_) for t, s_ in guards_of(pm, s.call, L, early=True)]
            breaks = [b_ for b_ in walk_local(L) if isinstance(b_, ast.Break) and b_.lineno < s.call.lineno]
        elif pmatch(f"range(len({HC}))", L.iter) is not None and norm(L.target) == tag:
            ok_space, dom = True, f"range(len({HC}))"
            filt = [(t, s_) for t, s_ in guards_of(pm, s.call, L, early=True)]
        elif isinstance(L.iter, ast.Name) and norm(L.target) == tag:
            cds = [d_ for d_ in defs.get(L.iter.id, []) if d_.kind == "assign"]
            for d_ in cds:
                m = pmatch(f"[$i for $i, $hc in enumerate({HC}) if $$c]", d_.value) or pmatch(f"[$i for $i, $hc in enumerate({HC})]", d_.value)
                if m:
                    ok_space, hcn, dom = True, m["hc"], f"[i for i, hc in enumerate({HC}) if ...]"
                    filt = [(t, True) for t in d_.value.generators[0].ifs]
                elif isinstance(d_.value, ast.List) and not d_.value.elts:
                    # cand = []; for i, hc in enumerate(HC): <guards>; cand.append(i)
                    for fl in [l2 for l2 in walk_local(ol) if isinstance(l2, ast.For) and pmatch(f"enumerate({HC})", l2.iter) is not None and isinstance(l2.target, ast.Tuple)]:
                        i2, hc2 = [norm(e) for e in fl.target.elts]
                        ap2 = [n for n, b in pfind(f"{L.iter.id}.append({i2})", fl)]
                        if ap2:
                            ok_space, hcn, dom = True, hc2, f"{L.iter.id}.append(i) for i, hc in enumerate({HC})"
                            filt = [(t, s_) for t, s_ in guards_of(pm, ap2[0], fl, early=True)]
                            breaks = [b_ for b_ in walk_local(fl) if isinstance(b_, ast.Break)]
        g1 = s.g1
        ok_graph = pmatch(f"{HC}[{tag}]", g1) is not None or (hcn is not None and norm(g1) == hcn and em is not None)
        if not ok_graph and hcn is not None and norm(g1) == hcn:
            ok_graph = False  # hc of a derived enumeration
    rep.ob("O6.4", "R6d", fi, ok_space, f"tag `{tag}` ranges over {dom}",
           "the tag stored with a partial embedding is the index of its host component in the host component list itself: the back-tracking compares tags of different "
           "pattern components, so positions in a per-component filtered list are not comparable", node=apps[0][0])
    rep.ob("O6.4", "R2", fi, ok_graph and norm(s.g2) == pc, s.call, "the matcher embeds this pattern component (G2) into the host component the tag names (G1)", node=s.call)
    # the filter is the size condition, nothing stronger; no early break
    from ..absval import Undecided, eval_expr
    ok_f = True
    why = []
    sz_names = {nm for nm, ds in local_defs(ol).items() for d_ in ds if d_.kind == "assign" and norm(d_.value) == f"{pc}.number_of_nodes()"}
    for t, sense in filt:
        try:
            for h in (1, 2, 3):
                for p in (1, 2, 3):
                    env = {f"{pc}.number_of_nodes()": p, f"len({pc})": p}
                    env.update({nm: p for nm in sz_names})
                    for hn in {x.id for x in ast.walk(t) if isinstance(x, ast.Name)} - sz_names - {pc}:
                        env[f"{hn}.number_of_nodes()"] = h
                        env[f"len({hn})"] = h
                    env[f"{HC}[{tag}].number_of_nodes()"] = h
                    keep = bool(eval_expr(t, env)) == sense
                    if (h >= p) and not keep:
                        ok_f = False
                        why.append(f"{norm(t)} rejects |host comp|={h} >= |pattern comp|={p}")
        except Undecided as exc:
            ok_f = None
            why.append(str(exc))
            break
    rep.ob("O6.4", "SHAPE", fi, ok_f, [norm(t) for t, _ in filt], "a host component is left out only if it is too small for the pattern component", {"why": why[:3]})
    okb = all(any("max_results" in norm(t) for t, s_ in guards_of(pm, b_, ol) if s_) for b_ in breaks)
    rep.ob("O6.4", "SHAPE", fi, okb, f"{len(breaks)} break(s) in the candidate scan", "the scan over host components is cut short only by the result limit (a `break` on the first too-small "
           "component makes the result depend on the order in which the substrate's fragments are written)")
