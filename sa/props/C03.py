"""C03 - every proposed reaction is a genuine instance of the rule (narrow)."""
from __future__ import annotations

import ast

from ..absval import Lin, Undecided
from ..core import (AnalysisError, alpha, call_name, const, dotted, is_const, kwarg, local_defs, norm,
                    origin, parent_map, walk_local)
from ..facts import helper_by_role, guards_of, mentions, recv_calls, returns_of, unpack_of, assigned_subscripts, enclosing_loops
from ..rules.nonmut import is_deepcopy, mutations
from ..pattern import pmatch, pfind, pall
from ..shape import SymTuple, atom, pretty, sym_eval, sym_tuple, tri, walk_paths

SR = "synkit/Synthesis/Reactor/syn_reactor.py"
RULE = "synkit/Rule/syn_rule.py"
MISC = "synkit/Graph/Hyrogen/_misc.py"
ITSC = "synkit/Graph/ITS/its_construction.py"

META = {
    "explanation": (
        "(a) R9 non-mutation: the substrate graph handed to _glue_graph/_get_explicit_map/h_to_explicit is only "
        "touched through copies (alias + view tracking, CFG dominance of the copy). (b/c) R15 symbolic gluing: "
        "_node_glue is executed in the shape domain (5-tuples of linear forms) on the non-wildcard paths and compared "
        "with the specification new_r == host_r, new_p.h == host_r.h - pat_r.h + pat_p.h, new_p.charge == pat_p.charge; "
        "bond gluing keeps the reactant-side order and adds the template's product-side order; every substrate bond "
        "enters as an unchanged (o, o) pair. R17 inversion parity: path enumeration of _wrap_template/smarts_list "
        "counts template inversions and reaction reversals per value of `invert`."
    ),
    "rules": {
        "R9": "parameter non-mutation (aliases, dict views, callee depth 2, copy must dominate)",
        "R15": "symbolic glue arithmetic in the shape domain",
        "R17": "orientation parity by path enumeration over the flag space",
        "R3a": "typesGH positional schema agreement of secondary writers/readers",
        "SRC": "def-use: which object reaches which callee argument",
        "R2": "matcher wiring: the labels an embedding search compares",
    },
    "not_decided": "element/charge balance of outputs and isomorphism of the result's centre with the template's (runtime values through RDKit and VF2); wildcard branches of _node_glue",
    "trusted_base": ["CPython ast", "sa/* analyser", "copy.deepcopy / nx.Graph.copy produce independent node/edge attribute dicts"],
    "assumptions": ["typesGH members are 5-tuples in the writer order decided under C01"],
}


def run(rep):
    rep.alias = {"O6.4": "O3.6", "O6.1": "O3.6", "O6.2": "O3.6", "O6.3": "O3.6"}
    from . import C06
    rep.run(C06.candidates)  # the embeddings that are glued place different template components on different substrate components
    rep.run(C06.component_aware)
    rep.run(C06.predicates_and_roles)  # ... and respect the template's atom / bond labels (a product set is an instance of the rule only for such matches)
    rep.alias = {}
    rep.run(nonmutation)
    rep.run(node_glue)
    rep.run(bond_glue)
    rep.run(parity)
    rep.run(schema)
    rep.run(wiring)
    rep.run(matcher_labels)
    rep.run(strip_h)


# ------------------------------------------------------------------ O3.1
def nonmutation(rep):
    sites = [(SR, "SynReactor._glue_graph", "host"), (SR, "SynReactor._get_explicit_map", "host"),
             (MISC, "h_to_explicit", "G"), (MISC, "h_to_implicit", "G"), (SR, "SynReactor._to_smarts", "its")]
    for rel, q, p in sites:
        fi = rep.f(rel, q)
        if p not in fi.params:
            raise AnalysisError(f"{fi.key}: parameter {p} vanished")
        muts = mutations(rep.repo, fi, p)
        if not muts:
            rep.ob("O3.1", "R9", fi, True, f"parameter `{p}`", f"`{p}` (the substrate graph) is never modified in {q}", node=fi.node)
        for node, why in muts:
            rep.ob("O3.1", "R9", fi, False, node, f"substrate must stay unchanged: {why}", node=node)
    # the working copy in _glue_graph really is a deep copy of host
    fi = rep.f(SR, "SynReactor._glue_graph")
    work = [(n, b) for n, b in pfind("$g = $$c", fi.node, into_nested=False) if isinstance(n, ast.Assign) and is_deepcopy(n.value)
            and n.value.args and norm(n.value.args[0]) == "host"]
    rep.ob("O3.1", "R9", fi, len(work) == 1, work[0][0] if work else "deepcopy(host)", "gluing works on a deep copy of the substrate graph")
    g = work[0][1]["g"] if work else None
    # each result is its own copy of that working graph
    res = [(n, b) for n, b in pfind("$its = $$c", fi.node, into_nested=False) if isinstance(n, ast.Assign) and is_deepcopy(n.value)
           and n.value.args and norm(n.value.args[0]) == g]
    if not res and g:
        # the working copy itself may be handed out ONCE, for the last mapping of the loop (nothing reads it afterwards):
        #     for i, m in enumerate(M): its = g if i == len(M) - 1 else deepcopy(g)
        fdefs = local_defs(fi.node)
        for n, b in pfind("$its = $$c", fi.node, into_nested=False):
            if not isinstance(n, ast.Assign):
                continue
            mm = pmatch(f"{g} if $i == $last else deepcopy({g})", n.value) or pmatch(f"deepcopy({g}) if $i != $last else {g}", n.value)
            if mm is None:
                continue
            lps_ = [l for l in walk_local(fi.node) if isinstance(l, ast.For) and any(x is n for x in ast.walk(l))]
            lp_ = lps_[-1] if lps_ else None
            em = pmatch(f"enumerate($M)", lp_.iter) if lp_ is not None else None
            last_src = origin(fdefs, ast.Name(id=mm["last"], ctx=ast.Load()))
            counter_ok = em is not None and isinstance(lp_.target, ast.Tuple) and norm(lp_.target.elts[0]) == mm["i"] and len(fdefs.get(mm["i"], [])) == 1
            last_ok = em is not None and pmatch(f"len({em['M']}) - 1", last_src) is not None and len(fdefs.get(mm["last"], [])) == 1
            # the working copy must not be read after the loop and M must not be re-bound
            after = [x for x in walk_local(fi.node) if isinstance(x, ast.Name) and x.id == g and isinstance(x.ctx, ast.Load) and lp_ is not None
                     and x.lineno > max(getattr(y, "lineno", 0) for y in ast.walk(lp_))]
            last_def = fdefs.get(mm["last"], [None])[0]
            m_stable = last_def is not None and all(getattr(d_.stmt, "lineno", 0) < last_def.stmt.lineno for d_ in fdefs.get(em["M"], []) if d_.kind != "param") if em else False
            if counter_ok and last_ok and not after and m_stable and last_def.stmt.lineno < lp_.lineno:
                res = [(n, b)]
    apps = [n for n, b in pfind("$l.append($x)", fi.node, into_nested=False) if res and b["x"] == res[0][1]["its"]]
    rets = returns_of(fi.node)
    ok = len(res) == 1 and len(apps) == 1 and bool(rets) and norm(rets[-1].value) == norm(apps[0].func.value)
    if g:
        rep.ob("O3.1", "R9", fi, ok, res[0][0] if res else "its = deepcopy(working copy)", "every proposed ITS is an independent deep copy and those copies are what is returned")


# ------------------------------------------------------------------ O3.2
def node_glue(rep):
    fi = rep.f(SR, "SynReactor._node_glue")
    P = fi.params  # host_n, pat_n, key
    base_env = {}
    # the four tuples
    names = {}
    for st in fi.node.body:
        if isinstance(st, ast.Assign) and isinstance(st.targets[0], ast.Tuple) and isinstance(st.value, ast.Subscript):
            src = norm(st.value)
            tg = [e.id for e in st.targets[0].elts if isinstance(e, ast.Name)]
            if src == f"{P[0]}[{P[2]}]" and len(tg) == 2:
                names["host_r"], names["host_p"] = tg
            elif src == f"{P[1]}[{P[2]}]" and len(tg) == 2:
                names["pat_r"], names["pat_p"] = tg
    if len(names) != 4:
        rep.ob("O3.2", "R15", fi, None, "typesGH unpacking", "cannot find `host_r, host_p = host_n[key]` / `pat_r, pat_p = pat_n[key]`", node=fi.node)
        return
    for role, nm in names.items():
        base_env[nm] = sym_tuple(role, 5)
    hr, hp, pr, pp = (sym_tuple(r, 5) for r in ("host_r", "host_p", "pat_r", "pat_p"))
    spec_r = hr
    spec_p = SymTuple((hp[0], hp[1], hr[2] - pr[2] + pp[2], pp[3], hp[4]))
    known = {f"{names['pat_r']}[0] == '*'": False, f"{names['pat_p']}[0] == '*'": False}
    try:
        paths = walk_paths(fi.node.body, known)
    except Undecided as exc:
        rep.ob("O3.2", "R15", fi, None, "_node_glue", f"path enumeration failed: {exc}", node=fi.node)
        return
    n = 0
    for path in paths:
        env = dict(base_env)
        written = None
        try:
            for st in path.stmts:
                if isinstance(st, ast.Assign) and len(st.targets) == 1:
                    t = st.targets[0]
                    if isinstance(t, ast.Name):
                        env[t.id] = sym_eval(st.value, env)
                    elif isinstance(t, ast.Tuple) and isinstance(st.value, ast.Subscript):
                        continue  # the unpacking handled above
                    elif isinstance(t, ast.Subscript) and norm(t) == f"{P[0]}[{P[2]}]":
                        written = (st, sym_eval(st.value, env))
                    elif isinstance(t, ast.Subscript) and norm(t.value) == P[0]:
                        continue  # other host keys (h_pairs)
                    else:
                        raise Undecided(f"unexpected assignment {norm(st)[:60]}")
        except Undecided as exc:
            rep.ob("O3.2", "R15", fi, None, "_node_glue", f"non-wildcard path not evaluable: {exc}", node=fi.node)
            continue
        if written is None:
            rep.ob("O3.2", "R15", fi, False, f"{P[0]}[{P[2]}]", "the glued node's typesGH is written on the non-wildcard path", node=fi.node)
            continue
        n += 1
        st, val = written
        ok_shape = isinstance(val, SymTuple) and len(val) == 2 and all(isinstance(v, SymTuple) for v in val)
        if not ok_shape:
            rep.ob("O3.2", "R15", fi, False, st, "typesGH is written as a pair of tuples", {"value": pretty(val)})
            continue
        new_r, new_p = val
        rep.ob("O3.2", "R15", fi, len(new_r) == 5 and len(new_p) == 5, st, "both glued typesGH members are 5-tuples",
               {"len_r": len(new_r), "len_p": len(new_p)})
        rep.ob("O3.2", "R15", fi, new_r == spec_r, f"new reactant side = {pretty(new_r)}",
               "reactant side of a glued atom is the substrate atom, unchanged", {"spec": pretty(spec_r)}, node=st)
        if len(new_p) == 5:
            rep.ob("O3.2", "R15", fi, new_p[2] == spec_p[2], f"new product hcount = {pretty(new_p[2])}",
                   "product-side hcount = substrate hcount - template reactant hcount + template product hcount",
                   {"spec": pretty(spec_p[2])}, node=st)
            rep.ob("O3.2", "R15", fi, new_p[3] == spec_p[3], f"new product charge = {pretty(new_p[3])}",
                   "product-side charge is the template's product charge", {"spec": pretty(spec_p[3])}, node=st)
            rep.ob("O3.2", "R15", fi, (new_p[0], new_p[1], new_p[4]) == (spec_p[0], spec_p[1], spec_p[4]),
                   f"new product element/aromatic/neighbors = {pretty(SymTuple((new_p[0], new_p[1], new_p[4])))}",
                   "element, aromaticity and neighbour labels of the product side stay the substrate's", node=st)
    rep.need("R15", n, 1, "non-wildcard path through _node_glue that writes typesGH")


# ------------------------------------------------------------------ O3.3
def bond_glue(rep):
    fi = rep.f(SR, "SynReactor._glue_graph")
    defs = local_defs(fi.node)
    pm = parent_map(fi.node)
    # the loop over template bonds:  for u, v, ra in rc.edges(data=True)
    edge_loops = [l for l in walk_local(fi.node) if isinstance(l, ast.For) and pmatch("rc.edges(data=True)", l.iter) is not None
                  and isinstance(l.target, ast.Tuple) and len(l.target.elts) == 3]
    rep.need("SRC", len(edge_loops), 1, "loop over template bonds in _glue_graph")
    lp = edge_loops[0]
    # "is there already a substrate bond between the matched end points" must be an orientation-free test (has_edge / EdgeView membership)
    from ..rules.edgeset import oriented_edge_membership
    bad_m = oriented_edge_membership(fi.node)
    rep.ob("O3.3", "SRC", fi, not bad_m, alpha(bad_m[0][0], fi.node) if bad_m else "has_edge(hu, hv)",
           "whether a template bond meets an existing substrate bond is decided independently of the order in which the two atoms are named" +
           (": " + bad_m[0][1] + "; a bond formed on top of an existing one then overwrites it instead of adding to it" if bad_m else ""), node=bad_m[0][0] if bad_m else lp)
    u, v, rc_attr = [norm(e) for e in lp.target.elts]
    # (1) every substrate bond enters as (o, o) with standard_order 0
    pre = [(n, b) for n, b in pfind("$d['order'] = ($$a, $$b)", fi.node, into_nested=False) if not any(x is n for x in ast.walk(lp))]
    rep.need("R15", len(pre), 1, "<data>['order'] = (o, o) initialisation")
    for st, b in pre:
        same = b["a"] == b["b"] and b["a"].isidentifier()
        rep.ob("O3.3", "R15", fi, same, st, "both components of an untouched bond's order pair are the same value")
        if not same:
            continue
        b["o"] = b["a"]
        src = origin(defs, ast.Name(id=b["o"], ctx=ast.Load()))
        from_host = pmatch("$d.get('order', $$dflt)", src, {"d": b["d"]}) is not None
        from ..facts import enclosing_loops as _el
        lps = list(reversed(_el(pm, st, fi.node)))  # outermost .. innermost
        its_loop = bool(lps) and pmatch("$its.edges(data=True)", lps[-1].iter) is not None and norm(lps[-1].target.elts[-1]) == b["d"]
        rep.ob("O3.3", "R15", fi, from_host and its_loop, st, "an untouched substrate bond becomes the pair (o, o) of its own order")
        gs = guards_of(pm, st, lps[-1] if lps else fi.node)
        rep.ob("O3.3", "R15", fi, not gs, st, "the (o, o) initialisation covers every substrate bond", {"guards": [norm(g_) for g_, _ in gs]})
        sd = pfind("$d.setdefault('standard_order', $$z)", lps[-1] if lps else fi.node, {"d": b["d"]})
        ok = len(sd) == 1 and sd[0][1]["z"] in ("0.0", "0")
        rep.ob("O3.3", "R15", fi, ok, sd[0][0] if sd else "setdefault('standard_order')", "an untouched substrate bond has standard_order 0")
    # (2) writes to an EXISTING substrate bond inside the template-bond loop
    ups = [n for n, b in pfind("$$h.update($ra)", lp, {"ra": rc_attr})]
    for c in ups:
        gs = guards_of(pm, c, lp)
        guarded = False
        for g_, sense in gs:
            if isinstance(g_, ast.Compare) and isinstance(g_.left, ast.Subscript) and is_const(g_.left.slice, 0) and is_const(g_.comparators[0]) \
                    and const(g_.comparators[0]) == 0:
                if (isinstance(g_.ops[0], ast.Eq) and not sense) or (isinstance(g_.ops[0], ast.NotEq) and sense):
                    guarded = True
        rep.ob("O3.3", "R15", fi, guarded, f"{norm(c)} under {[norm(g_) for g_, _ in gs]}",
               "an existing substrate bond may take the template's order pair only if the template bond exists on the reactant side (order[0] != 0); "
               "otherwise the reactant side of the result loses a substrate bond", node=c)
    adds = [(n, b) for n, b in pfind("$ha['order'] = ($$a, $$b)", lp)]
    if not adds:
        rep.ob("O3.3", "R15", fi, False, "no additive path for bonds formed across an existing substrate bond",
               "a template bond that is new on the product side but lands on an existing substrate bond must ADD its order on the product side", node=fi.node)
    for st, b in adds:
        host_attr = b["ha"]
        gs = guards_of(pm, st, lp)
        rc_order_name = None
        for g_, s_ in gs:
            m_ = pmatch("$ro[0] == 0", g_)
            if m_ and s_:
                rc_order_name = m_["ro"]
        rep.ob("O3.3", "R15", fi, rc_order_name is not None, f"additive path guard {[norm(g_) for g_, _ in gs]}",
               "the additive path is taken exactly when the template bond is absent on the reactant side (order[0] == 0)", node=st)
        if rc_order_name is None:
            continue
        rc_src = origin(defs, ast.Name(id=rc_order_name, ctx=ast.Load()))
        ok_rc = pmatch("$ra.get('order', $$dflt)", rc_src, {"ra": rc_attr}) is not None or pmatch("$ra['order']", rc_src, {"ra": rc_attr}) is not None
        rep.ob("O3.3", "SRC", fi, ok_rc, rc_src, "the template's order pair is read from the template bond")
        ha_src = origin(defs, ast.Name(id=host_attr, ctx=ast.Load()))
        hm = pmatch("$its[$hu][$hv]", ha_src)
        rep.ob("O3.3", "SRC", fi, hm is not None, ha_src, "the bond that is updated is the substrate bond between the matched end points")
        env = {rc_order_name: sym_tuple("rc", 2), f"{host_attr}['order']": sym_tuple("ho", 2)}
        for nm, ds in defs.items():
            for d in ds:
                if d.kind == "assign" and pmatch("$ha['order']", d.value, {"ha": host_attr}) is not None:
                    env[nm] = sym_tuple("ho", 2)
        try:
            val = sym_eval(st.value, env)
            ho, rc = sym_tuple("ho", 2), sym_tuple("rc", 2)
            rep.ob("O3.3", "R15", fi, val[0] == ho[0], f"new order[0] = {pretty(val[0])}",
                   "reactant-side order of a glued bond is the substrate's, untouched", node=st)
            rep.ob("O3.3", "R15", fi, val[1] == ho[1] + rc[1], f"new order[1] = {pretty(val[1])}",
                   "product-side order = substrate order + template product-side order", node=st)
        except Undecided as exc:
            rep.ob("O3.3", "R15", fi, None, st, f"order arithmetic not evaluable: {exc}")
        aug = [n for n in walk_local(lp) if isinstance(n, ast.AugAssign) and pmatch("$ha['standard_order']", n.target, {"ha": host_attr}) is not None]
        ok = len(aug) == 1 and isinstance(aug[0].op, ast.Add) and (pmatch("$ra.get('standard_order', $$z)", aug[0].value, {"ra": rc_attr}) is not None) \
            and [(norm(t), s_) for t, s_ in guards_of(pm, aug[0], lp)] == [(norm(t), s_) for t, s_ in gs]
        rep.ob("O3.3", "R15", fi, ok, aug[0] if aug else "standard_order +=", "standard_order accumulates the template's change on the additive path")
    # (3) end points go through the match
    hu_hv = pfind("$hu, $hv = ($m.get($u), $m.get($v))", lp, {"u": u, "v": v})
    from ..facts import enclosing_loops
    mloop = enclosing_loops(pm, lp, fi.node)
    def is_current_match(name, depth=3):
        """the loop's own match variable, a copy of it, or its completion by add_wildcard_subgraph_for_unmapped(.., match)"""
        if not mloop:
            return False
        if norm(mloop[0].target) == name:
            return True
        ds = [d_ for d_ in local_defs(mloop[0]).get(name, []) if d_.kind in ("assign", "unpack")]
        if not ds or depth == 0:
            return False
        for d_ in ds:
            v_ = d_.value
            if isinstance(v_, ast.Name) and not d_.index:
                if not is_current_match(v_.id, depth - 1):
                    return False
            elif isinstance(v_, ast.Call) and call_name(v_) == "add_wildcard_subgraph_for_unmapped" and len(v_.args) == 3 and isinstance(v_.args[2], ast.Name):
                if not (v_.args[2].id == name or is_current_match(v_.args[2].id, depth - 1)):
                    return False
            else:
                return False
        return True
    ok = len(hu_hv) == 1 and bool(mloop) and is_current_match(hu_hv[0][1]["m"])
    rep.ob("O3.3", "SRC", fi, ok, hu_hv[0][0] if hu_hv else lp, "template bond end points are translated through the current match")
    # node loop: glue host node m[rc_n] with template node rc_n
    ng = pfind("SynReactor._node_glue($its.nodes[$hn], rc.nodes[$rn])", fi.node, into_nested=False)
    rep.need("SRC", len(ng), 1, "_node_glue(copy.nodes[host atom], rc.nodes[template atom])")
    c, b = ng[0]
    loops = enclosing_loops(pm, c, fi.node)
    inner = loops[0] if loops else None
    ok = inner is not None and pmatch("$m.items()", inner.iter) is not None and isinstance(inner.target, ast.Tuple) \
        and [norm(e) for e in inner.target.elts] == [b["rn"], b["hn"]] and (not hu_hv or pmatch("$m.items()", inner.iter)["m"] == hu_hv[0][1]["m"])
    rep.ob("O3.2", "SRC", fi, ok, c, "_node_glue(host atom m[rc_n] of the copy, template atom rc_n) for every pair of the match")


# ------------------------------------------------------------------ O3.4
def parity(rep):
    inv = rep.f(SR, "SynReactor._invert_template")
    defs = local_defs(inv.node)
    rets = returns_of(inv.node)
    ok = None
    if len(rets) == 1 and isinstance(rets[0].value, ast.Call) and call_name(rets[0].value) == "ITSGraph":
        c = rets[0].value
        ups = [unpack_of(defs, a.id) if isinstance(a, ast.Name) else None for a in c.args[:2]]
        if all(ups):
            ok = ups[0][1] == (1,) and ups[1][1] == (0,) and ups[0][0] is ups[1][0] and call_name(ups[0][0]) == "its_decompose" \
                and norm(ups[0][0].args[0]) == inv.params[0]
    rep.ob("O3.4", "R17", inv, ok, rets[0] if rets else "return", "inverting a template swaps its two sides exactly once (ITSGraph(right, left))")
    wt = rep.f(SR, "SynReactor._wrap_template")
    for flag in (True, False):
        try:
            paths = walk_paths(wt.node.body, {"self.invert": flag})
        except Undecided as exc:
            rep.ob("O3.4", "R17", wt, None, "_wrap_template", f"path enumeration failed: {exc}")
            continue
        n_ret = 0
        for p in paths:
            if not isinstance(p.end, ast.Return):
                continue
            n_ret += 1
            cnt = sum(1 for st in p.stmts for c in ast.walk(st) if isinstance(c, ast.Call) and call_name(c) == "_invert_template")
            want = 1 if flag else 0
            rep.ob("O3.4", "R17", wt, cnt == want, f"invert={flag}: path returning `{norm(p.end.value)[:50]}`",
                   f"the template is inverted {want}x when invert={flag}", {"inversions_on_path": cnt,
                                                                           "assumed": [f"{norm(t)[:40]}={s}" for t, s in p.assumed]}, node=p.end)
            if flag and cnt == want:
                # ... and the inverted graph is what the returned rule is built from (def-use along this path)
                tainted = set()

                def _dirty(e):
                    return any((isinstance(c, ast.Call) and call_name(c) == "_invert_template") or (isinstance(c, ast.Name) and c.id in tainted) for c in ast.walk(e))
                for st in p.stmts:
                    if isinstance(st, ast.Assign):
                        names = [x.id for t in st.targets for x in ast.walk(t) if isinstance(x, ast.Name)]
                        if _dirty(st.value):
                            tainted.update(names)
                        else:
                            tainted.difference_update(names)
                used = p.end.value is not None and _dirty(p.end.value)
                rep.ob("O3.4", "R17", wt, used, f"invert={flag}: `{norm(p.end.value)[:50]}`",
                       "the rule that is returned is built from the inverted graph (not a ready-made rule that ignores it)",
                       {"assumed": [f"{norm(t)[:40]}={s}" for t, s in p.assumed]}, node=p.end)
        rep.need("R17", n_ret, 2, f"return paths of _wrap_template with invert={flag}")
    sl = rep.f(SR, "SynReactor.smarts_list")
    pm = parent_map(sl.node)
    rr = [c for c in walk_local(sl.node) if isinstance(c, ast.Call) and call_name(c) == "reverse_reaction"]
    rep.need("R17", len(rr), 1, "reverse_reaction in smarts_list")
    for c in rr:
        gs = [(norm(t), s) for t, s in guards_of(pm, c, sl.node)]
        rep.ob("O3.4", "R17", sl, ("self.invert", True) in gs, f"reverse_reaction under {gs}",
               "the output is reversed exactly when invert is set", node=c)
    rep.ob("O3.4", "R17", sl, len(rr) == 1, f"{len(rr)} reverse_reaction site(s)", "the output is reversed at most once")


# ------------------------------------------------------------------ O3.5
def schema(rep):
    order = _writer_order(rep)
    gg = rep.f(SR, "SynReactor._glue_graph")
    # the builder of a default typesGH entry: the helper of _glue_graph that holds the tuple of attribute look-ups (found by role, not by name)
    def _get_tuples(node):
        return [n for n in walk_local(node) if isinstance(n, ast.Tuple) and len(n.elts) >= 4 and all(isinstance(e, ast.Call) and call_name(e) == "get" for e in n.elts)]
    def _builds_default(f_):
        # ... and returns it (directly or through a local): helpers that merely use the builder do not count
        tups = _get_tuples(f_.node)
        fdefs = local_defs(f_.node)
        return bool(tups) and any(any(x is t_ for t_ in tups for e_ in ([r_.value] + [origin(fdefs, y) for y in ast.walk(r_.value) if isinstance(y, ast.Name)]) for x in ast.walk(e_))
                                  for r_ in returns_of(f_.node) if r_.value is not None)
    cands = helper_by_role(rep.repo.module(SR), gg, _builds_default)
    if len(cands) != 1:
        raise AnalysisError(f"default typesGH builder of _glue_graph not identified ({len(cands)} candidates)")
    tg = rep.touch(cands[0])
    tup = _get_tuples(tg.node)
    rep.need("R3a", len(tup), 1, "_default_tg tuple")
    keys = [const(e.args[0]) for e in tup[0].elts]
    rep.ob("O3.5", "R3a", tg, keys == order, tup[0], "default typesGH of substrate atoms follows the ITS writer order",
           {"default_order": keys, "writer_order": order})
    rets = returns_of(tg.node)
    ok = len(rets) == 1 and isinstance(rets[0].value, ast.Tuple) and len(rets[0].value.elts) == 2 \
        and norm(rets[0].value.elts[0]) == norm(rets[0].value.elts[1])
    rep.ob("O3.5", "R3a", tg, ok, rets[0] if rets else "return", "an unmatched substrate atom has identical reactant and product labels")
    # _explicit_h reads hcount at the writer's position on both sides
    eh = rep.f(SR, "SynReactor._explicit_h")
    reads = []
    ehd = local_defs(eh.node)

    def _is_tgh(e):
        """is e the whole typesGH pair of some node (directly, or through a local alias)?"""
        if isinstance(e, ast.Subscript) and is_const(e.slice, "typesGH"):
            return True
        if isinstance(e, ast.Name):
            return any(d_.kind == "assign" and d_.value is not None and _is_tgh(d_.value) for d_ in ehd.get(e.id, []))
        return False
    for n in walk_local(eh.node):
        if not (isinstance(n, ast.Subscript) and isinstance(n.ctx, ast.Load)):
            continue
        try:
            # <pair>[side][i]
            if isinstance(n.value, ast.Subscript) and _is_tgh(n.value.value):
                reads.append((const(n.value.slice), const(n.slice), n))
            # t_side[i] with  t0, t1 = <pair>
            elif isinstance(n.value, ast.Name):
                for d_ in ehd.get(n.value.id, []):
                    if d_.index is not None and len(d_.index) == 1 and d_.value is not None and _is_tgh(d_.value):
                        reads.append((d_.index[0], const(n.slice), n))
        except (ValueError, TypeError):
            pass
    rep.need("R3a", len(reads), 2, "typesGH[side][i] reads in _explicit_h")
    for side, idx, n in reads:
        rep.ob("O3.5", "R3a", eh, isinstance(idx, int) and idx < len(order) and order[idx] == "hcount", n,
               "hydrogen bookkeeping reads the writer's hcount position")
    # hydrogen migration: every recorded migration moves exactly ONE hydrogen (one explicit H node is created per entry)
    pmh = parent_map(eh.node)
    from ..facts import enclosing_loops
    # the loop that creates explicit hydrogens: `for src, dst in <M>: ... rc.add_node(..., element="H", ...)`
    news = [c for c in walk_local(eh.node) if isinstance(c, ast.Call) and norm(c.func) == f"{eh.params[0]}.add_node"]
    mloop = [l for c in news for l in enclosing_loops(pmh, c, eh.node)[:1]]
    def _iterated(it):
        """the collection a loop runs over: M, enumerate(M, ..), list(M), sorted?? no (order may matter but not the count)"""
        if isinstance(it, ast.Name):
            return it.id
        if isinstance(it, ast.Call) and call_name(it) in ("enumerate", "list", "tuple", "iter") and it.args and isinstance(it.args[0], ast.Name):
            return it.args[0].id
        return None
    okn = len(news) == 1 and len(mloop) == 1 and _iterated(mloop[0].iter) is not None and is_const(kwarg(news[0], "element"), "H")
    rep.ob("O3.2", "R15", eh, okn, news[0] if news else "rc.add_node", "one explicit hydrogen atom is created per recorded migration", node=mloop[0] if mloop else eh.node)
    M_ = _iterated(mloop[0].iter) if okn else "migrations"
    apps = [n for n, b in pfind("$m.append($$x)", eh.node, {"m": M_})]
    rep.need("R15", len(apps), 1, "append to the migration list in _explicit_h")
    for c in apps:
        lps = enclosing_loops(pmh, c, eh.node)
        inner = lps[0] if lps else None
        donor_loop = lps[1] if len(lps) > 1 else None
        cnt = norm(donor_loop.target.elts[1]) if donor_loop is not None and isinstance(donor_loop.target, ast.Tuple) and len(donor_loop.target.elts) == 2 else None
        per_unit = None
        if isinstance(inner, ast.For) and cnt and pmatch("range($c)", inner.iter, {"c": cnt}) is not None:
            per_unit = True   # one iteration per unit of the donor's surplus
        elif isinstance(inner, ast.While):
            decs = [n for n in walk_local(inner) if isinstance(n, ast.AugAssign) and isinstance(n.target, ast.Name) and isinstance(n.op, ast.Sub)
                    and n.target.id in {x.id for x in ast.walk(inner.test) if isinstance(x, ast.Name)}]
            per_unit = len(decs) == 1 and is_const(decs[0].value, 1)
        rep.ob("O3.2", "R15", eh, per_unit, f"{norm(c)[:40]} inside `{norm(inner)[:50] if inner is not None else '?'}`",
               "each recorded migration accounts for exactly one unit of the donor's hydrogen surplus (hydrogen count is conserved)", node=c)
        scope = inner if inner is not None else eh.node
        caps = pfind("$r[$i] = ($x, $cap - $$k)", scope)
        okc = (len(caps) == 1 and caps[0][1]["k"] == "1") if caps else None
        if okc is None:
            # capacities kept in a table:  cap[recipient] -= 1, the recipient being the second member of the recorded pair
            rec = c.args[0].elts[1] if c.args and isinstance(c.args[0], ast.Tuple) and len(c.args[0].elts) == 2 else None
            decs = [n for n in walk_local(scope) if isinstance(n, ast.AugAssign) and isinstance(n.op, ast.Sub) and isinstance(n.target, ast.Subscript)
                    and rec is not None and norm(n.target.slice) == norm(rec)]
            if decs:
                caps = [(decs[0], {})]
                okc = len(decs) == 1 and is_const(decs[0].value, 1)
        rep.ob("O3.2", "R15", eh, okc, caps[0][0] if caps else "recips[...] = (recv, rcap - 1)", "and exactly one unit of the recipient's deficit", node=c)
    # fresh ids
    okf = None
    if news and isinstance(news[0].args[0], ast.Name):
        h = news[0].args[0].id
        hd = pfind("$h = $nid", mloop[0], {"h": h}) if mloop else []
        if hd:
            nid = hd[0][1]["nid"]
            init = [n for n, b in pfind("$nid = $$e", eh.node, {"nid": nid}, into_nested=False) if not enclosing_loops(pmh, n, eh.node)]
            inc = [n for n in walk_local(mloop[0]) if isinstance(n, ast.AugAssign) and norm(n.target) == nid and isinstance(n.op, ast.Add) and is_const(n.value, 1)]
            okf = len(init) == 1 and pmatch("max(($n for $n in rc.nodes if isinstance($n, int)), default=-1) + 1", init[0].value) is not None and len(inc) == 1
        elif mloop:
            # ids handed out by enumerate(<migrations>, start=<first id>): consecutive, one per migration
            em = pmatch("enumerate($m, start=$$s)", mloop[0].iter) or pmatch("enumerate($m, $$s)", mloop[0].iter)
            if em and isinstance(mloop[0].target, ast.Tuple) and norm(mloop[0].target.elts[0]) == h:
                st_ = mloop[0].iter.keywords[0].value if mloop[0].iter.keywords else mloop[0].iter.args[1]
                okf = pmatch("max(($n for $n in rc.nodes if isinstance($n, int)), default=-1) + 1", origin(local_defs(eh.node), st_)) is not None
    rep.ob("O3.2", "R15", eh, okf, "next id = max(int node ids) + 1, advanced per hydrogen", "new hydrogen ids start above the largest existing node id and are advanced for every hydrogen")
    # SynRule.__init__: rebuild replaces only the hcount slot, left for member 0, right for member 1
    ri = rep.f(RULE, "SynRule.__init__")
    defs = local_defs(ri.node)
    found = 0
    for t, v, st in assigned_subscripts(ri.node):
        if is_const(t.slice, "typesGH") and isinstance(v, ast.Tuple) and len(v.elts) == 2:
            found += 1
            for side, e in enumerate(v.elts):
                src = origin(defs, e)
                uname = None
                if isinstance(src, ast.Tuple) and len(src.elts) == len(order):
                    env = {}
                    olds = {x.value.id for x in src.elts if isinstance(x, ast.Subscript) and isinstance(x.value, ast.Name)}
                    keep = True
                    for i, x in enumerate(src.elts):
                        if i == order.index("hcount"):
                            continue
                        keep = keep and isinstance(x, ast.Subscript) and is_const(x.slice, i) and len(olds) == 1
                    if olds:
                        uname = list(olds)[0]
                    up = unpack_of(defs, uname) if uname else None
                    hc = src.elts[order.index("hcount")]
                    frag = {}
                    for nm_, ds_ in defs.items():
                        for d_ in ds_:
                            if d_.index is not None and isinstance(d_.value, ast.Call) and call_name(d_.value) == "its_decompose":
                                frag[d_.index[0]] = nm_
                    side_graph = frag.get(side, "?")
                    other = frag.get(1 - side, "?")
                    m = mentions(hc, [side_graph, other])
                    ok = keep and up is not None and up[1] == (side,) and m == {side_graph} and "hcount" in norm(hc)
                    rep.ob("O3.5", "R3a", ri, ok, f"typesGH[{side}] = {norm(src)}",
                           f"rule construction rewrites only the hcount slot of member {side}, from the {'left' if side == 0 else 'right'} fragment",
                           {"old_member": list(up[1]) if up else None, "hcount_from": sorted(m)}, node=st)
                else:
                    rep.ob("O3.5", "R3a", ri, None, src, "typesGH rebuild is not a literal 5-tuple", node=st)
    rep.need("R3a", found, 1, "typesGH rebuild in SynRule.__init__")
    # SynRule works on a copy of the template graph
    muts = mutations(rep.repo, ri, "rc", depth=1)
    rep.ob("O3.1", "R9", ri, not muts, muts[0][0] if muts else "parameter `rc`",
           "SynRule never modifies the template graph it is given" + (f": {muts[0][1]}" if muts else ""),
           node=muts[0][0] if muts else ri.node)


def _writer_order(rep):
    from ..facts import list_literal_strs
    wrap = rep.f(ITSC, "ITSConstruction.ITSGraph")
    defs = local_defs(wrap.node)
    calls = [c for c in walk_local(wrap.node) if isinstance(c, ast.Call) and call_name(c) == "construct"]
    na = kwarg(calls[0], "node_attrs") if calls else None
    wl = list_literal_strs(origin(defs, na)) if na is not None else None
    if wl is None:
        raise AnalysisError("typesGH writer order not found (see C01)")
    return wl


# ------------------------------------------------------------------ O3.6
def matcher_labels(rep):
    """Every embedding search the reactor starts (first match, and the re-match of templates that keep an explicit hydrogen) compares bond orders:
    an embedding that ignores them places a single-bond pattern on a double bond, and gluing then rewrites a substrate bond the rule never
    mentions - the reactant side of the result is no longer the substrate."""
    n = 0
    for q in ("SynReactor.mappings", "SynReactor._get_explicit_map"):
        fi = rep.repo.maybe_func(SR, q)
        if fi is None:
            continue
        d = local_defs(fi.node)
        for c in walk_local(fi.node):
            if not (isinstance(c, ast.Call) and call_name(c) in ("find_subgraph_mappings", "PartialMatcher")):
                continue
            ea = kwarg(c, "edge_attrs")
            if ea is None:
                continue
            n += 1
            src = origin(d, ea)
            while isinstance(src, ast.Call) and isinstance(src.func, ast.Name) and src.func.id in ("list", "tuple") and len(src.args) == 1:
                src = origin(d, src.args[0])
            if isinstance(src, ast.Name) and src.id not in d:
                tops = [st.value for st in fi.module.tree.body if isinstance(st, ast.Assign) and len(st.targets) == 1 and norm(st.targets[0]) == src.id]
                src = tops[0] if len(tops) == 1 else src
            keys = None
            if isinstance(src, (ast.List, ast.Tuple)) and all(isinstance(e, ast.Constant) for e in src.elts):
                keys = [e.value for e in src.elts]
            rep.ob("O3.6", "R2", fi, None if keys is None else ("order" in keys), c,
                   "the embedding search compares bond orders (edge_attrs includes 'order')", {"edge_attrs": keys}, node=c)
    rep.need("R2", n, 2, "embedding searches with edge_attrs in SynReactor")


def wiring(rep):
    il = rep.f(SR, "SynReactor.its_list")
    defs = local_defs(il.node)
    calls = [c for c in walk_local(il.node) if isinstance(c, ast.Call) and call_name(c) == "_glue_graph"]
    rep.need("SRC", len(calls), 1, "_glue_graph call in its_list")
    c = calls[0]
    a = [norm(origin(defs, x)) for x in c.args[:3]]
    rep.ob("O3.6", "SRC", il, a[0] == "self.graph.raw", c, "gluing starts from the substrate graph", {"host": a[0]}, node=c)
    rep.ob("O3.6", "SRC", il, a[1] == "self.rule.rc.raw", c, "gluing uses the (possibly inverted) rule's centre", {"rc": a[1]}, node=c)
    loops = [l for l in walk_local(il.node) if isinstance(l, ast.For) and any(x is c for x in ast.walk(l))]
    ok = bool(loops) and norm(loops[0].iter) == "self.mappings" and a[2] == norm(loops[0].target)
    rep.ob("O3.6", "SRC", il, ok, loops[0].iter if loops else c, "one gluing per mapping returned by the matcher")
    # the mappings that are glued belong to THIS substrate and THIS rule in their concrete numbering: a mapping is a dict of node ids
    from ..rules import provenance as PV
    mp = rep.f(SR, "SynReactor.mappings")
    mdefs = local_defs(mp.node)
    stores = [n for n in walk_local(mp.node) if isinstance(n, ast.Assign) and any(norm(t) == "self._mappings" for t in n.targets)]
    rep.need("SRC", len(stores), 1, "stores to self._mappings in SynReactor.mappings")
    bad, und, n_roots = [], [], 0
    for st in stores:
        roots = PV.all_roots(mdefs, st.value)
        n_roots += len(roots)
        for r, cont, key in PV.persistent_lookups(mp, roots, mdefs):
            verdict, why = PV.key_identifies_objects(rep.repo, mp, key, mdefs)
            if verdict is False:
                bad.append((r, f"taken from `{cont}`: {why}"))
            elif verdict is None:
                und.append((r, f"taken from `{cont}`: {why}"))
    ok = False if bad else (None if und else True)
    first = (bad or und or [(stores[0], "")])[0]
    rep.ob("O3.6", "SRC", mp, ok, first[0], "the mappings are node-id dictionaries of this call's substrate and rule: they come from this call's search, or from a store whose key "
           "pins the concrete objects" + (f" ({first[1]})" if first[1] else ""), {"stores": len(stores), "roots": n_roots}, node=first[0])
    # the substrate's atoms are numbered by ONE scheme (position in the SMILES): with use_index_as_atom_map a partially mapped substrate gets
    # map numbers for labelled atoms and positions for the others - two atoms can receive the same id and are merged into one node
    wi = rep.f(SR, "SynReactor._wrap_input")
    s2g = [c for c in walk_local(wi.node) if isinstance(c, ast.Call) and call_name(c) == "smiles_to_graph"]
    rep.need("SRC", len(s2g), 1, "smiles_to_graph call in _wrap_input")
    for c in s2g:
        v = kwarg(c, "use_index_as_atom_map")
        okv = True if (v is None or is_const(v, False)) else (False if is_const(v, True) else None)
        rep.ob("O3.6", "SRC", wi, okv, c, "substrate atoms get their node ids from one numbering scheme (use_index_as_atom_map stays off: map numbers and positions "
               "are not mixed)", node=c)
        v2 = kwarg(c, "drop_non_aam")
        rep.ob("O3.6", "SRC", wi, True if (v2 is None or is_const(v2, False)) else (False if is_const(v2, True) else None), c,
               "no substrate atom is dropped while parsing (drop_non_aam stays off)", node=c)
    ts = rep.f(SR, "SynReactor._to_smarts")
    defs = local_defs(ts.node)
    rets = [r for r in returns_of(ts.node) if isinstance(r.value, ast.JoinedStr)]
    rep.need("SRC", len(rets), 1, "f-string return in _to_smarts")
    vals = [v.value for v in rets[0].value.values if isinstance(v, ast.FormattedValue)]
    sides = []
    for v in vals:
        src = origin(defs, v)
        first = src.args[0] if isinstance(src, ast.Call) and src.args else None
        # follow `left = remove_wildcard_nodes(left)` back to the decompose pair
        idx = None
        if isinstance(first, ast.Name):
            for d in defs.get(first.id, []):
                if d.index is not None and isinstance(d.value, ast.Call) and call_name(d.value) == "its_decompose":
                    idx = d.index
        sides.append(idx)
    rep.ob("O3.6", "SRC", ts, sides == [(0,), (1,)], rets[0], "SMARTS is '<reactant side>>><product side>' of the glued ITS",
           {"sides": [list(s) if s else None for s in sides]})
    # a glued graph that RDKit refuses to sanitise (impossible valence after the hydrogen bookkeeping) is dropped, not written: the writer is
    # asked to sanitise, and whatever it is asked, a failure inside it comes back as None
    from ..absval import eval_expr as _ev
    IOC = "synkit/IO/chem_converter.py"
    g2s = rep.f(IOC, "graph_to_smi")
    wcalls = [c for c in walk_local(ts.node) if isinstance(c, ast.Call) and call_name(c) == "graph_to_smi"]
    rep.need("SRC", len(wcalls), 2, "graph_to_smi calls in _to_smarts")
    a = g2s.node.args
    pos = [x.arg for x in a.posonlyargs + a.args]
    dflt = dict(zip(pos[len(pos) - len(a.defaults):], a.defaults))
    dflt.update({k.arg: v for k, v in zip(a.kwonlyargs, a.kw_defaults) if v is not None})
    pm_g = parent_map(g2s.node)
    for c in wcalls:
        env, und = {}, False
        for k_, v_ in dflt.items():
            try:
                env[k_] = _ev(v_, {})
            except Undecided:
                pass
        for i, x in enumerate(c.args[1:], start=1):
            if i < len(pos):
                try:
                    env[pos[i]] = _ev(x, {})
                except Undecided:
                    env.pop(pos[i], None)
        for k in c.keywords:
            if k.arg is None:
                und = True
                continue
            try:
                env[k.arg] = _ev(k.value, {})
            except Undecided:
                env.pop(k.arg, None)
        ok = None if und else (env.get("sanitize", True) is True)
        rep.ob("O3.6", "SRC", ts, ok, c, "the writer is asked to sanitise the glued side", {"bound": {k_: repr(v_) for k_, v_ in env.items() if k_ != pos[0]}}, node=c)
        # returns inside exception handlers of the writer, under this call's options
        for h in [h for t_ in walk_local(g2s.node) if isinstance(t_, ast.Try) for h in t_.handlers]:
            for r_ in [x for st_ in h.body for x in ast.walk(st_) if isinstance(x, ast.Return)]:
                if r_.value is None or is_const(r_.value, None):
                    continue
                reach = True
                for t_, sense in guards_of(pm_g, r_, g2s.node):
                    try:
                        if bool(_ev(t_, dict(env))) != sense:
                            reach = False
                    except Undecided:
                        reach = None if reach else reach
                rep.ob("O3.6", "SRC", g2s, False if reach else (None if reach is None else True), r_,
                       "a graph the writer could not sanitise comes back as None (here: a string is returned from the failure handler under the options "
                       f"{ {k_: v_ for k_, v_ in env.items() if k_ != pos[0]} }): products with impossible valences are listed", node=r_)


MUTANTS = [
    dict(name="hydrogen delta sign flipped", file=SR, expect="O3.2", old="delta = pat_r[2] - pat_p[2]", new="delta = pat_p[2] - pat_r[2]"),
    dict(name="product charge from substrate", file=SR, expect="O3.2",
         old="new_p = host_p[:2] + (host_r[2] - delta,) + (pat_p[3],) + host_p[4:]",
         new="new_p = host_p[:2] + (host_r[2] - delta,) + (host_r[3],) + host_p[4:]"),
    dict(name="product hcount from product side", file=SR, expect="O3.2",
         old="new_p = host_p[:2] + (host_r[2] - delta,) + (pat_p[3],) + host_p[4:]",
         new="new_p = host_p[:2] + (host_p[2] + delta,) + (pat_p[3],) + host_p[4:]"),
    dict(name="reactant side takes template hcount", file=SR, expect="O3.2",
         old="new_r = host_r[:2] + (host_r[2],) + host_r[3:]", new="new_r = host_r[:2] + (pat_r[2],) + host_r[3:]"),
    dict(name="no deepcopy of host", file=SR, expect="O3.1", old="host_g = deepcopy(host)", new="host_g = host"),
    dict(name="results share one graph", file=SR, expect="O3.1", old="            its = deepcopy(host_g)", new="            its = host_g"),
    dict(name="additive path touches reactant side", file=SR, expect="O3.3",
         old='host_attr["order"] = (ho[0], round(ho[1] + rc_order[1]))', new='host_attr["order"] = (round(ho[0] + rc_order[0]), ho[1])'),
    dict(name="additive path subtracts", file=SR, expect="O3.3",
         old='host_attr["order"] = (ho[0], round(ho[1] + rc_order[1]))', new='host_attr["order"] = (ho[0], round(ho[1] - rc_order[1]))'),
    dict(name="invert does not swap", file=SR, expect="O3.4",
         old="return ITSConstruction().ITSGraph(r, l, balance_its=balance_its)", new="return ITSConstruction().ITSGraph(l, r, balance_its=balance_its)"),
    dict(name="reverse unconditionally", file=SR, expect="O3.4",
         old="            if self.invert:\n                self._smarts = [reverse_reaction(rsmi) for rsmi in self._smarts]",
         new="            self._smarts = [reverse_reaction(rsmi) for rsmi in self._smarts]"),
    dict(name="implicit template not inverted", file=SR, expect="O3.4",
         old="                graph = self._invert_template(graph, balance_its=True)\n                return SynRule(",
         new="                return SynRule("),
    dict(name="h_to_explicit works in place", file=MISC, expect="O3.1",
         old="        nodes = G.nodes()\n    H2 = G.copy()\n    max_node", new="        nodes = G.nodes()\n    H2 = G\n    max_node"),
    dict(name="untouched bonds get (o, 0)", file=SR, expect="O3.3", old='data["order"] = (o, o)', new='data["order"] = (o, 0)'),
    dict(name="standard_order overwritten", file=SR, expect="O3.3",
         old='host_attr["standard_order"] += rc_attr.get(', new='host_attr["standard_order"] = rc_attr.get('),
    dict(name="glue template node onto wrong end", file=SR, expect="O3.2",
         old="SynReactor._node_glue(its.nodes[host_n], rc.nodes[rc_n])", new="SynReactor._node_glue(its.nodes[rc_n], rc.nodes[rc_n])"),
    dict(name="_default_tg swaps hcount and charge", file=SR, expect="O3.5",
         old='                a.get("hcount", 0),\n                a.get("charge", 0),', new='                a.get("charge", 0),\n                a.get("hcount", 0),'),
    dict(name="SynRule edits the caller's template", file=RULE, expect="O3.1", old="rc_graph = rc.copy()", new="rc_graph = rc"),
    dict(name="rule right hcount from left fragment", file=RULE, expect="O3.5",
         old='new_t1 = (t1[0], t1[1], right_graph.nodes[node]["hcount"], t1[3], t1[4])',
         new='new_t1 = (t1[0], t1[1], left_graph.nodes[node]["hcount"], t1[3], t1[4])'),
    dict(name="smarts sides swapped", file=SR, expect="O3.6",
         old="r_smi = graph_to_smi(left)\n        p_smi = graph_to_smi(right)", new="r_smi = graph_to_smi(right)\n        p_smi = graph_to_smi(left)"),
    dict(name="glue on the un-inverted rule", file=SR, expect="O3.6", old="rc_raw = self.rule.rc.raw", new="rc_raw = self.template"),
]

TWINS = [
    dict(name="delta inlined", edits=[(SR, "delta = pat_r[2] - pat_p[2]", "delta = 0 - pat_p[2] + pat_r[2]")]),
    dict(name="new_r is host_r spelled differently", file=SR,
         old="new_r = host_r[:2] + (host_r[2],) + host_r[3:]", new="new_r = host_r[:3] + host_r[3:]"),
    dict(name="copy.deepcopy spelling", edits=[(SR, "host_g = deepcopy(host)", "import copy as _c\n        host_g = _c.deepcopy(host)")]),
]


# ------------------------------------------------------------------ O3.7 hydrogen accounting when a rule's explicit hydrogens are folded
def strip_h(rep):
    """SynRule._strip_explicit_h removes explicit hydrogens from the rule's graphs and books each of them into the hcount of its
    heavy neighbours.  A hydrogen that has no heavy neighbour on a side (a bare proton, or half of H-H) is booked nowhere there:
    removing it makes the rule neither consume nor release it, and the reactions it returns are unbalanced in H and charge."""
    from ..absval import _NOVALUE, Undecided, eval_function
    fi = rep.f(RULE, "SynRule._strip_explicit_h")
    ro = rep.f(RULE, "SynRule._strip_explicit_h.<locals>._removable_on")
    fr = rep.f(RULE, "SynRule._strip_explicit_h.<locals>._fully_removable")
    G, H = ro.params

    def run(nbr_elems):
        ids = tuple(range(len(nbr_elems)))

        def hook(e, env):
            if pmatch(f"{G}.neighbors({H})", e) is not None or pmatch(f"{G}[{H}]", e) is not None or pmatch(f"{G}.adj[{H}]", e) is not None:
                return ids
            if pmatch(f"{G}.degree({H})", e) is not None or pmatch(f"{G}.degree[{H}]", e) is not None:
                return len(ids)
            m = pmatch(f"{G}.nodes[$n].get('element')", e) or pmatch(f"{G}.nodes[$n]['element']", e)
            if m is not None and m["n"] in env:
                return nbr_elems[env[m["n"]]]
            return _NOVALUE
        return eval_function(ro.node, {"__resolve__": hook})
    table, ok = {}, True
    try:
        for cfg_ in ((), ("H",), ("H", "H"), ("C",), ("H", "C"), ("O", "N")):
            v = bool(run(cfg_))
            table["+".join(cfg_) or "none"] = v
            heavy = any(x != "H" for x in cfg_)
            if v and not heavy:
                ok = False
    except Undecided as exc:
        ok, table = None, {"undecided": str(exc)}
    rep.ob("O3.7", "R15", ro, ok, "_removable_on(graph, h)",
           "a hydrogen may be folded on a side only if it has a heavy neighbour there to carry it in hcount (never a bare proton, never a hydrogen bonded only to hydrogens)",
           {"removable_by_neighbour_elements": table}, node=ro.node)
    rets = returns_of(fr.node)
    L, R = fi.params[1], fi.params[2]
    okf = len(rets) == 1 and (pmatch(f"_removable_on({L}, $h) and _removable_on({R}, $h)", rets[0].value) is not None
                              or pmatch(f"_removable_on({R}, $h) and _removable_on({L}, $h)", rets[0].value) is not None)
    rep.ob("O3.7", "R15", fr, okf, rets[0] if rets else "return", "a hydrogen is folded only when BOTH sides can carry it")
    # every removal of a hydrogen is licensed by _fully_removable and preceded by the booking loop
    pm = parent_map(fi.node)
    defs = local_defs(fi.node)
    rms = [c for c in walk_local(fi.node) if isinstance(c, ast.Call) and call_name(c) in ("remove_node", "remove_nodes_from")]
    rep.need("R15", len(rms), 2, "remove_node sites in _strip_explicit_h")
    for c in rms:
        h = norm(c.args[0]) if c.args else "?"
        gs = guards_of(pm, c, fi.node, early=True)
        licensed = any((pmatch(f"_fully_removable({h})", t) is not None and s_) for t, s_ in gs)
        if not licensed:
            # h iterates over a list that was filtered by _fully_removable
            for l in enclosing_loops(pm, c, fi.node):
                if h in {x.id for x in ast.walk(l.target) if isinstance(x, ast.Name)}:
                    # the loop runs over a collection that was filtered by _fully_removable (possibly through enumerate / sorted / list)
                    srcs = [origin(defs, l.iter)] + [origin(defs, x) for x in ast.walk(l.iter) if isinstance(x, ast.Name)]
                    if any(isinstance(x, ast.Call) and call_name(x) == "_fully_removable" for s_ in srcs for x in ast.walk(s_)):
                        licensed = True
        sibs = _siblings_of(pm, c)
        booked = False
        for st in sibs:
            if not (isinstance(st, ast.For) and (pmatch(f"list($g.neighbors({h}))", st.iter) is not None or pmatch(f"$g.neighbors({h})", st.iter) is not None)):
                continue
            nb = norm(st.target)
            gname = (pmatch(f"list($g.neighbors({h}))", st.iter) or pmatch(f"$g.neighbors({h})", st.iter))["g"]
            # node-data aliases of the neighbour:  d = g.nodes[nb]
            aliases = {f"{gname}.nodes[{nb}]"} | {b_["d"] for _, b_ in pfind(f"$d = {gname}.nodes[{nb}]", st)}
            for inc in [n_ for n_ in walk_local(st) if isinstance(n_, ast.AugAssign) and isinstance(n_.op, ast.Add) and is_const(n_.value, 1)
                        and isinstance(n_.target, ast.Subscript) and is_const(n_.target.slice, "hcount") and norm(n_.target.value) in aliases]:
                # ... for heavy neighbours only
                heavy = any(s_ and any(pmatch(f"{a_}.get('element') != 'H'", t) is not None or pmatch(f"{a_}['element'] != 'H'", t) is not None for a_ in aliases)
                            for t, s_ in guards_of(pm, inc, st))
                booked = booked or heavy
        if licensed and not booked and any(isinstance(n_, ast.AugAssign) and isinstance(n_.target, ast.Subscript) and is_const(n_.target.slice, "hcount")
                                           for st in sibs for n_ in walk_local(st)):
            # an hcount is incremented next to the removal, but not in the shape this rule reads (neighbours gathered by a helper, say)
            booked = None
        rep.ob("O3.7", "R15", fi, (licensed and booked) if booked is not None else None, c, "a hydrogen node is removed only when licensed by _fully_removable and after it was booked into its heavy neighbours' hcount",
               {"licensed": licensed, "booked": bool(booked)}, node=c)


def _siblings_of(pm, call):
    st = pm.get(call)
    while st is not None and not isinstance(st, ast.stmt):
        st = pm.get(st)
    owner = pm.get(st)
    for f in ("body", "orelse", "finalbody"):
        lst = getattr(owner, f, None)
        if isinstance(lst, list) and any(x is st for x in lst):
            return lst
    return []
