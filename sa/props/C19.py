"""C19 - complexes, linkage classes and deficiency follow their definitions."""
from __future__ import annotations

import ast

from ..absval import Lin, Undecided, linform
from ..core import (AnalysisError, call_name, dotted, is_const, local_defs, norm, origin, parent_map,
                    walk_local, kwarg)
from ..facts import guards_of, returns_of, enclosing_loops, default_of
from ..rules import walk as W

DF = "synkit/CRN/Props/deficiency.py"
ST = "synkit/CRN/Props/stoich.py"
CV = "synkit/CRN/Hypergraph/conversion.py"
A = "DeficiencyAnalyzer."

META = {
    "explanation": (
        "R5 directed walk: the bipartite view is an nx.DiGraph (gkind through _as_bipartite / hypergraph_to_bipartite); "
        "the writer table extracted from hypergraph_to_bipartite says role='reactant' sits on arcs INTO a reaction node "
        "and role='product' on arcs OUT of it. Every per-reaction walk in _complex_vectors must enumerate the arcs of "
        "the direction its role test needs (an out-arc walk that tests 'reactant' is dead code and leaves every "
        "reactant complex zero), take the species end of the arc, and accumulate reactants into the lhs and products "
        "into the rhs vector with the writer's 'stoich' key. R15: deficiency == n_complexes - n_linkage - rank and "
        "delta_l == n_l - 1 - s_l as linear forms; complex graph arc reactant->product; complexes de-duplicated by "
        "vector; linkage classes = components of the undirected complex graph; weak reversibility = each such "
        "component strongly connected."
    ),
    "rules": {"R5": "directed-walk rule (DiGraph out-arc semantics + writer role table)",
              "R3b": "edge attribute key agreement with the writer", "R15": "symbolic arithmetic of the deficiency formulas",
              "SHAPE": "definition shape of linkage classes / weak reversibility / complex graph"},
    "not_decided": "non-negativity of the deficiency and sub-additivity over linkage classes (values); numerical rank",
    "trusted_base": ["CPython ast", "sa/* analyser", "networkx DiGraph.edges(n)/in_edges/out_edges semantics", "nx.connected_components / is_strongly_connected"],
    "assumptions": ["the bipartite view is produced by hypergraph_to_bipartite (role/stoich on arcs)"],
}


def run(rep):
    table = W.writer_table(rep.repo)
    rep.extra["writer_role_table"] = table
    conv = rep.f(CV, "hypergraph_to_bipartite")
    rep.ob("O19.1", "R5", conv, table["reactant"]["dir"] == "in" and table["product"]["dir"] == "out",
           f"writer: {table}", "view writer: reactant arcs run species->reaction, product arcs reaction->species")
    asb = rep.f(CV, "_as_bipartite")
    rets = returns_of(asb.node)
    kinds = []
    for r in rets:
        v = r.value
        t = norm(v)
        kinds.append("DiGraph" if ("hypergraph_to_bipartite" in t or "nx.DiGraph(" in t) else "?")
    rep.ob("O19.1", "R5", asb, all(k == "DiGraph" for k in kinds) and bool(kinds), [norm(r.value)[:60] for r in rets],
           "_as_bipartite always returns a directed graph")
    rep.run(complex_vectors, table)
    rep.run(formulas)
    rep.run(definitions)


def complex_vectors(rep, table):
    fi = rep.f(DF, A + "_complex_vectors")
    directed = W.graph_is_directed(rep.repo, fi, "G")
    rep.ob("O19.1", "R5", fi, True if directed else None, "G", "the graph walked in _complex_vectors is the directed bipartite view",
           {"directed": directed}, node=fi.node)
    ws = [w for w in W.walks(fi) if w.node == "r"]
    rep.need("R5", len(ws), 1, "per-reaction arc walks in _complex_vectors")
    pm = parent_map(fi.node)
    acc_role = {}
    for w in ws:
        if not w.roles_tested:
            rep.ob("O19.1", "R5", fi, None, w.loop.iter, "walk without a role test", node=w.loop)
        for role, cmp_ in w.roles_tested:
            want = table.get(role, {}).get("dir")
            ok = (want == w.direction) if want else None
            rep.ob("O19.1", "R5", fi, ok, f"G.{w.method}(r) tests role == '{role}'",
                   f"arcs with role '{role}' are {want}-arcs of a reaction node; G.{w.method}(r) on a DiGraph enumerates {w.direction}-arcs "
                   f"(a mismatch makes the branch dead and the {role} complex empty)", {"walk_direction": w.direction, "writer_direction": want},
                   node=w.loop)
        rep.ob("O19.1", "R5", fi, w.species_pos_ok, f"species end `{w.species_var}` of G.{w.method}(r)",
               "the species end of the arc is the end that is not the reaction node", node=w.loop)
        # accumulations inside this walk
        for n in walk_local(w.loop):
            if isinstance(n, ast.AugAssign) and isinstance(n.target, ast.Subscript) and isinstance(n.op, ast.Add):
                vec = norm(n.target.value)
                gs = guards_of(pm, n, w.loop)
                roles_here = [b.value for t, s in gs if s for c in ast.walk(t) if isinstance(c, ast.Compare)
                              for b in c.comparators if isinstance(b, ast.Constant) and isinstance(b.value, str) and "role" in norm(c.left)]
                acc_role.setdefault(vec, set()).update(roles_here)
                # coefficient
                v = n.value
                getc = [c for c in ast.walk(v) if isinstance(c, ast.Call) and call_name(c) == "get"]
                okk = bool(getc) and is_const(getc[0].args[0], "stoich") and norm(getc[0].func.value) == (w.data_var or "data") \
                    and len(getc[0].args) > 1 and is_const(getc[0].args[1]) and getc[0].args[1].value == 1
                rep.ob("O19.1", "R3b", fi, okk, n, "the complex entry adds this arc's 'stoich' coefficient (default 1)", node=n)
                idx = norm(n.target.slice)
                rep.ob("O19.1", "R5", fi, w.species_var is not None and w.species_var in idx, n,
                       "the coefficient is added at the walked species' own index", node=n)
    # which vector is the reactant complex?
    defs = local_defs(fi.node)
    adds = [c for c in walk_local(fi.node) if isinstance(c, ast.Call) and norm(c.func) == "CG.add_edge"]
    rep.need("SHAPE", len(adds), 1, "CG.add_edge in _complex_vectors")
    c = adds[0]
    chain = []
    for a in c.args[:2]:
        src = origin(defs, a)  # add_complex(y)
        vec = origin(defs, src.args[0]) if isinstance(src, ast.Call) and call_name(src) == "add_complex" and src.args else None
        # tuple(lhs)
        base = vec.args[0] if isinstance(vec, ast.Call) and call_name(vec) == "tuple" and vec.args else vec
        chain.append(norm(base) if base is not None else None)
    tail_roles = acc_role.get(chain[0], set()) if chain[0] else set()
    head_roles = acc_role.get(chain[1], set()) if chain[1] else set()
    rep.ob("O19.2", "SHAPE", fi, tail_roles == {"reactant"} and head_roles == {"product"}, c,
           "the complex graph has one arc (reactant complex) -> (product complex) per reaction",
           {"tail_vector": chain[0], "tail_roles": sorted(tail_roles), "head_vector": chain[1], "head_roles": sorted(head_roles)}, node=c)
    gs = guards_of(pm, c, fi.node)
    rep.ob("O19.2", "SHAPE", fi, not gs, c.func, "every reaction contributes its arc (no filter)", node=c)
    lp = enclosing_loops(pm, c, fi.node)
    rep.ob("O19.2", "SHAPE", fi, bool(lp) and norm(lp[0].iter) == "reaction_nodes", lp[0].iter if lp else c, "complexes are collected over all reaction nodes")
    # vectors are reset per reaction
    resets = [n for n in (lp[0].body if lp else []) if isinstance(n, ast.Assign) and norm(n.targets[0]) in (chain[0], chain[1])]
    rep.ob("O19.2", "SHAPE", fi, len(resets) == 2, [norm(r)[:30] for r in resets], "both complex vectors start from zero for every reaction")
    # de-duplication by vector
    ac = rep.f(DF, A + "_complex_vectors.<locals>.add_complex")
    first = [st for st in ac.node.body if isinstance(st, ast.If)]
    ok = bool(first) and norm(first[0].test) == "vec in idx_map" and isinstance(first[0].body[0], ast.Return) \
        and norm(first[0].body[0].value) == "idx_map[vec]"
    rep.ob("O19.2", "SHAPE", ac, ok, first[0].test if first else "add_complex", "complexes are the *distinct* multisets: an existing vector is reused")
    ok2 = any(isinstance(n, ast.Assign) and norm(n.targets[0]) == "idx_map[vec]" for n in walk_local(ac.node)) \
        and any(isinstance(n, ast.Call) and norm(n.func) == "complexes.append" and norm(n.args[0]) == "vec" for n in walk_local(ac.node))
    rep.ob("O19.2", "SHAPE", ac, ok2, "idx_map[vec] = k; complexes.append(vec)", "a new complex is registered in the list and in the index map")


def formulas(rep):
    fi = rep.f(DF, A + "compute_summary")
    defs = local_defs(fi.node)

    def atom(n):
        return n.id if isinstance(n, ast.Name) else None
    d = [x for x in defs.get("delta", []) if x.kind == "assign"]
    rep.need("R15", len(d), 1, "delta assignment in compute_summary")
    try:
        lf = linform(d[0].value, atom)
        ok = lf == Lin({"n_complexes": 1, "n_link": -1, "rank": -1})
        rep.ob("O19.2", "R15", fi, ok, d[0].stmt, "deficiency == n_complexes - n_linkage_classes - rank", {"linear_form": lf.pretty()})
    except Undecided as exc:
        rep.ob("O19.2", "R15", fi, None, d[0].stmt, str(exc))
    nl = origin(defs, ast.Name(id="n_link", ctx=ast.Load()))
    ok = isinstance(nl, ast.Call) and call_name(nl) == "number_connected_components" and norm(nl.args[0]) == "CG.to_undirected()"
    rep.ob("O19.2", "SHAPE", fi, ok, nl, "linkage classes = connected components of the undirected complex graph")
    nc = origin(defs, ast.Name(id="n_complexes", ctx=ast.Load()))
    rep.ob("O19.2", "SHAPE", fi, norm(nc) == "len(complexes)", nc, "n_complexes counts the distinct complexes")
    rk = [x for x in defs.get("rank", []) if x.kind == "assign"]
    ok = bool(rk) and "self._rank_fn(G)" in norm(rk[0].value)
    rep.ob("O19.2", "SHAPE", fi, ok, rk[0].stmt if rk else "rank", "rank is the stoichiometric rank of the same view")
    init = rep.f(DF, A + "__init__")
    dflt = default_of(init, "rank_fn")
    rep.ob("O19.2", "SHAPE", init, dflt is not None and norm(dflt) == "stoichiometric_rank", dflt if dflt is not None else "rank_fn",
           "the default rank function is stoichiometric_rank")
    imp = rep.repo.module(DF).imports.get("stoichiometric_rank", "")
    rep.ob("O19.2", "SHAPE", f"{DF}:<module>", imp.endswith("stoich.stoichiometric_rank"), f"import <- {imp}", "stoichiometric_rank is the one of Props.stoich")
    sr = rep.f(ST, "stoichiometric_rank")
    rets = returns_of(sr.node)
    ok = len(rets) == 1 and "np.linalg.matrix_rank(S" in norm(rets[0].value) and norm(origin(local_defs(sr.node), ast.Name(id="S", ctx=ast.Load()))) == "stoichiometric_matrix(crn)"
    rep.ob("O19.2", "SHAPE", sr, ok, rets[0] if rets else "return", "rank = matrix_rank of the stoichiometric matrix")
    # the summary stores what was computed
    ds = [c for c in walk_local(fi.node) if isinstance(c, ast.Call) and call_name(c) == "DeficiencySummary"]
    if ds:
        kws = {k.arg: norm(k.value) for k in ds[0].keywords}
        ok = kws.get("deficiency") == "int(delta)" and kws.get("n_complexes") == "int(n_complexes)" and \
            kws.get("n_linkage_classes") == "int(n_link)" and kws.get("stoich_rank") == "int(rank)" and "weakly_rev" in kws.get("weakly_reversible", "")
        rep.ob("O19.2", "SHAPE", fi, ok, ds[0].func, "the summary reports the computed quantities under their own names", kws, node=ds[0])
    # linkage-class deficiencies
    lf_fi = rep.f(DF, A + "compute_linkage_deficiencies")
    apps = [c for c in walk_local(lf_fi.node) if isinstance(c, ast.Call) and norm(c.func) == "lc_defs.append"]
    rep.need("R15", len(apps), 1, "lc_defs.append")
    try:
        lf = linform(apps[0].args[0], atom)
        rep.ob("O19.2", "R15", lf_fi, lf == Lin({"n_l": 1, 1: -1, "s_l": -1}), apps[0], "delta_l == n_l - 1 - s_l", {"linear_form": lf.pretty()})
    except Undecided as exc:
        rep.ob("O19.2", "R15", lf_fi, None, apps[0], str(exc))
    ld = local_defs(lf_fi.node)
    ok = norm(origin(ld, ast.Name(id="n_l", ctx=ast.Load()))) == "len(lc)" and \
        norm(origin(ld, ast.Name(id="s_l", ctx=ast.Load()))) == "self._linkage_class_stoich_rank(lc)" and \
        norm(origin(ld, ast.Name(id="lcs", ctx=ast.Load()))) == "list(nx.connected_components(und))" and \
        norm(origin(ld, ast.Name(id="und", ctx=ast.Load()))) == "self._complex_graph.to_undirected()"
    rep.ob("O19.2", "SHAPE", lf_fi, ok, "n_l, s_l, lcs", "per-class quantities are taken over the components of the undirected complex graph")
    # per-class rank: differences product - reactant over arcs inside the class
    lr = rep.f(DF, A + "_linkage_class_stoich_rank")
    ldefs = local_defs(lr.node)
    diff = [x for x in ldefs.get("diff", []) if x.kind == "assign"]
    ok = bool(diff) and isinstance(diff[0].value, ast.BinOp) and isinstance(diff[0].value.op, ast.Sub)
    rep.ob("O19.2", "R15", lr, ok, diff[0].stmt if diff else "diff", "per-class rank spans the complex differences of the class's reactions")
    from ..pattern import pmatch
    dl = [l for l in walk_local(lr.node) if isinstance(l, ast.For) and any(isinstance(x, ast.Assign) and any(norm(t_) == "diff" for t_ in x.targets) for x in ast.walk(l))]
    oke = len(dl) == 1 and (pmatch("$s.edges()", dl[0].iter) is not None or pmatch("$s.edges", dl[0].iter) is not None)
    rep.ob("O19.2", "SHAPE", lr, oke, dl[0].iter if dl else "for u, v in sub.edges()",
           "one difference vector per reaction arc of the class (tree/BFS edges of the *directed* complex graph do not reach every complex)")
    sub = ldefs.get("sub", [])
    rep.ob("O19.2", "SHAPE", lr, bool(sub) and norm(sub[0].value) == "self._complex_graph.subgraph(nodes)", sub[0].stmt if sub else "sub",
           "only reactions inside the linkage class contribute")


def definitions(rep):
    fi = rep.f(DF, A + "_is_weakly_reversible")
    P = fi.params[0]
    defs = local_defs(fi.node)
    loops = [n for n in walk_local(fi.node) if isinstance(n, ast.For)]
    rep.need("SHAPE", len(loops), 1, "component loop in _is_weakly_reversible")
    lp = loops[0]
    it = origin(defs, lp.iter)
    und = None
    if isinstance(it, ast.Call) and call_name(it) == "connected_components" and it.args:
        und = origin(defs, it.args[0])
    ok = und is not None and norm(und) == f"{P}.to_undirected()"
    rep.ob("O19.2", "SHAPE", fi, ok, lp.iter, "weak reversibility is tested per linkage class (component of the undirected complex graph)")
    sc = [c for c in walk_local(lp) if isinstance(c, ast.Call) and call_name(c) == "is_strongly_connected"]
    ok = False
    if sc:
        arg = origin(defs, sc[0].args[0])
        ok = norm(arg) == f"{P}.subgraph({norm(lp.target)})"
    rep.ob("O19.2", "SHAPE", fi, ok, sc[0] if sc else "is_strongly_connected", "each linkage class must be strongly connected as a directed subgraph")
    pm = parent_map(fi.node)
    rets = returns_of(fi.node)
    shape = [(norm(r.value), [(norm(t), s) for t, s in guards_of(pm, r, fi.node)]) for r in rets]
    okr = len(rets) == 2 and shape[0][0] == "False" and len(shape[0][1]) == 1 and shape[0][1][0][0].startswith("not nx.is_strongly_connected") \
        and shape[0][1][0][1] and shape[1] == ("True", [])
    rep.ob("O19.2", "SHAPE", fi, okr, str(shape), "False exactly when some class is not strongly connected, True otherwise")
    cs = rep.f(DF, A + "compute_summary")
    wr = [c for c in walk_local(cs.node) if isinstance(c, ast.Call) and call_name(c) == "_is_weakly_reversible"]
    rep.ob("O19.2", "SHAPE", cs, bool(wr) and norm(wr[0].args[0]) == "CG", wr[0] if wr else "_is_weakly_reversible", "weak reversibility is evaluated on the complex graph")
    d0 = rep.f(DF, A + "check_deficiency_zero")
    rets = returns_of(d0.node)
    ok = bool(rets) and norm(rets[-1].value) == "self._summary.deficiency == 0 and self._summary.weakly_reversible"
    rep.ob("O19.2", "SHAPE", d0, ok, rets[-1] if rets else "return", "deficiency-zero check = (deficiency == 0) and weakly reversible")


MUTANTS = [
    dict(name="revert F-C19 (undirected-style walk)", file=DF, expect="O19.1",
         old='            for s_node, _, data in G.in_edges(r, data=True):\n                if s_node in species_index and data.get("role") == "reactant":\n                    lhs[species_index[s_node]] += int(data.get("stoich", 1))',
         new='            for u, v, data in G.edges(r, data=True):\n                s_node = v if u == r else u\n                if s_node in species_index and data.get("role") == "reactant":\n                    lhs[species_index[s_node]] += int(data.get("stoich", 1))'),
    dict(name="products read from in-arcs", file=DF, expect="O19.1",
         old="            for _, s_node, data in G.out_edges(r, data=True):", new="            for s_node, _, data in G.in_edges(r, data=True):"),
    dict(name="wrong endpoint of the in-arc", file=DF, expect="O19.1",
         old="            for s_node, _, data in G.in_edges(r, data=True):", new="            for _, s_node, data in G.in_edges(r, data=True):"),
    dict(name="deficiency sign of rank", file=DF, expect="O19.2", old="delta = int(n_complexes - n_link - rank)", new="delta = int(n_complexes - n_link + rank)"),
    dict(name="complex arc reversed", file=DF, expect="O19.2", old="            CG.add_edge(u_idx, v_idx)", new="            CG.add_edge(v_idx, u_idx)"),
    dict(name="linkage classes from strong components", file=DF, expect="O19.2",
         old="        n_link = nx.number_connected_components(CG.to_undirected())", new="        n_link = nx.number_strongly_connected_components(CG)"),
    dict(name="coefficients ignored", file=DF, expect="O19.1",
         old='                    rhs[species_index[s_node]] += int(data.get("stoich", 1))', new='                    rhs[species_index[s_node]] += 1'),
    dict(name="complexes not de-duplicated", file=DF, expect="O19.2",
         old="            if vec in idx_map:\n                return idx_map[vec]\n", new=""),
    dict(name="weak reversibility on the whole graph", file=DF, expect="O19.2",
         old="        for comp in nx.connected_components(und):\n            sub = G.subgraph(comp)\n            if not nx.is_strongly_connected(sub):",
         new="        for comp in nx.connected_components(und):\n            sub = und.subgraph(comp)\n            if not nx.is_strongly_connected(sub.to_directed()):"),
    dict(name="per-class deficiency off by one", file=DF, expect="O19.2", old="lc_defs.append(int(n_l - 1 - s_l))", new="lc_defs.append(int(n_l - s_l))"),
    dict(name="writer flips product arcs", file=CV, expect="O19.1", old="            G.add_edge(rnode, v, **attrs)", new="            G.add_edge(v, rnode, **attrs)"),
    dict(name="lhs accumulates products", file=DF, expect="O19.2",
         old='                if s_node in species_index and data.get("role") == "product":\n                    rhs[species_index[s_node]]',
         new='                if s_node in species_index and data.get("role") == "product":\n                    lhs[species_index[s_node]]'),
    dict(name="as_bipartite returns undirected graphs as is", file=CV, expect="O19.1",
         old="            nx.MultiDiGraph,\n        ),\n    ):\n        return crn if isinstance(crn, nx.DiGraph) else nx.DiGraph(crn)", new="            nx.MultiDiGraph,\n        ),\n    ):\n        return crn"),
    dict(name="revert F-C19", revert_patch="notes/fixes/C19.patch", expect="O19.1"),
]

TWINS = [
    dict(name="walk with predecessors-style unpack names", file=DF,
         old="            for s_node, _, data in G.in_edges(r, data=True):", new="            for s_node, _r, data in G.in_edges(r, data=True):"),
    dict(name="delta with reordered terms", file=DF, old="delta = int(n_complexes - n_link - rank)", new="delta = int(-rank + n_complexes - n_link)"),
]
