"""C19 - complexes, linkage classes and deficiency follow their definitions."""
from __future__ import annotations

import ast

from ..absval import Lin, Undecided, linform
from ..core import (AnalysisError, alpha, call_name, dotted, is_const, local_defs, norm, origin, parent_map,
                    walk_local, kwarg)
from ..facts import guards_of, returns_of, enclosing_loops, default_of
from ..rules import walk as W
from ..pattern import pmatch, pfind, pall

DF = "synkit/CRN/Props/deficiency.py"
ST = "synkit/CRN/Props/stoich.py"
CV = "synkit/CRN/Hypergraph/conversion.py"
A = "DeficiencyAnalyzer."

META = {
    "explanation": (
        "R5 directed walk: the bipartite view is an nx.DiGraph (gkind through _as_bipartite / hypergraph_to_bipartite); "
        "the writer table extracted from hypergraph_to_bipartite says role='reactant' sits on arcs INTO a reaction node "
        "and role='product' on arcs OUT of it. Every per-reaction walk in _complex_vectors must enumerate the arcs of "
        "the direction its role test needs (an out-arc walk that tests 'reactant' is dead code and leaves every "
        "reactant complex zero), take the species end of the arc, and accumulate reactants into the lhs and products "
        "into the rhs vector with the writer's 'stoich' key. R15: deficiency == n_complexes - n_linkage - rank and "
        "delta_l == n_l - 1 - s_l as linear forms; complex graph arc reactant->product; complexes de-duplicated by "
        "vector; linkage classes = components of the undirected complex graph; weak reversibility = each such "
        "component strongly connected."
    ),
    "rules": {"R5": "directed-walk rule (DiGraph out-arc semantics + writer role table)",
              "R3b": "edge attribute key agreement with the writer", "R15": "symbolic arithmetic of the deficiency formulas",
              "SHAPE": "definition shape of linkage classes / weak reversibility / complex graph"},
    "not_decided": "non-negativity of the deficiency and sub-additivity over linkage classes (values); numerical rank",
    "trusted_base": ["CPython ast", "sa/* analyser", "networkx DiGraph.edges(n)/in_edges/out_edges semantics", "nx.connected_components / is_strongly_connected"],
    "assumptions": ["the bipartite view is produced by hypergraph_to_bipartite (role/stoich on arcs)"],
}


def run(rep):
    table = W.writer_table(rep.repo)
    rep.extra["writer_role_table"] = table
    conv = rep.f(CV, "hypergraph_to_bipartite")
    rep.ob("O19.1", "R5", conv, table["reactant"]["dir"] == "in" and table["product"]["dir"] == "out",
           f"writer: {table}", "view writer: reactant arcs run species->reaction, product arcs reaction->species")
    asb = rep.f(CV, "_as_bipartite")
    rets = returns_of(asb.node)
    kinds = []
    for r in rets:
        v = r.value
        t = norm(v)
        kinds.append("DiGraph" if ("hypergraph_to_bipartite" in t or "nx.DiGraph(" in t) else "?")
    rep.ob("O19.1", "R5", asb, all(k == "DiGraph" for k in kinds) and bool(kinds), [norm(r.value)[:60] for r in rets],
           "_as_bipartite always returns a directed graph")
    rep.run(complex_vectors, table)
    rep.run(formulas)
    rep.run(definitions)
    rep.run(netfold)


def complex_vectors(rep, table):
    fi = rep.f(DF, A + "_complex_vectors")
    Gp = fi.params[1]
    directed = W.graph_is_directed(rep.repo, fi, Gp)
    rep.ob("O19.1", "R5", fi, True if directed else None, Gp, "the graph walked in _complex_vectors is the directed bipartite view",
           {"directed": directed}, node=fi.node)
    pm = parent_map(fi.node)
    defs = local_defs(fi.node)
    rets = returns_of(fi.node)
    rm = pmatch("($complexes, $idx, $cg)", rets[-1].value) if rets else None
    if rm is None:
        raise AnalysisError("_complex_vectors no longer returns (complexes, index map, complex graph)")
    CG, IDX, CX = rm["cg"], rm["idx"], rm["complexes"]
    adds = [c for c in walk_local(fi.node) if isinstance(c, ast.Call) and norm(c.func) == f"{CG}.add_edge"]
    rep.need("SHAPE", len(adds), 1, "CG.add_edge in _complex_vectors")
    c = adds[0]
    lp = enclosing_loops(pm, c, fi.node)
    rnode = norm(lp[0].target) if lp else None
    ws = [w for w in W.walks(fi, graph_names=(Gp,)) if w.node == rnode]
    rep.need("R5", len(ws), 1, "per-reaction arc walks in _complex_vectors")
    acc_role = {}
    for w in ws:
        if not w.roles_tested:
            rep.ob("O19.1", "R5", fi, None, w.loop.iter, "walk without a role test", node=w.loop)
        for role, cmp_ in w.roles_tested:
            want = table.get(role, {}).get("dir")
            ok = (want == w.direction) if want else None
            rep.ob("O19.1", "R5", fi, ok, f"G.{w.method}(r) tests role == '{role}'",
                   f"arcs with role '{role}' are {want}-arcs of a reaction node; G.{w.method}(r) on a DiGraph enumerates {w.direction}-arcs "
                   f"(a mismatch makes the branch dead and the {role} complex empty)", {"walk_direction": w.direction, "writer_direction": want},
                   node=w.loop)
        rep.ob("O19.1", "R5", fi, w.species_pos_ok, f"species end of G.{w.method}(r)",
               "the species end of the arc is the end that is not the reaction node", {"species_var": w.species_var}, node=w.loop)
        # accumulations inside this walk
        for n in walk_local(w.loop):
            if isinstance(n, ast.AugAssign) and isinstance(n.target, ast.Subscript) and isinstance(n.op, ast.Add):
                vec = norm(n.target.value)
                gs = guards_of(pm, n, w.loop)
                roles_here = [b.value for t, s in gs if s for c_ in ast.walk(t) if isinstance(c_, ast.Compare)
                              for b in c_.comparators if isinstance(b, ast.Constant) and isinstance(b.value, str) and "role" in norm(c_.left)]
                acc_role.setdefault(vec, set()).update(roles_here)
                # coefficient
                v = n.value
                getc = [c_ for c_ in ast.walk(v) if isinstance(c_, ast.Call) and call_name(c_) == "get"]
                okk = bool(getc) and is_const(getc[0].args[0], "stoich") and w.data_var is not None and norm(getc[0].func.value) == w.data_var \
                    and len(getc[0].args) > 1 and is_const(getc[0].args[1]) and getc[0].args[1].value == 1
                rep.ob("O19.1", "R3b", fi, okk, alpha(n, fi.node), "the complex entry adds this arc's 'stoich' coefficient (default 1)", node=n)
                idx = {x.id for x in ast.walk(n.target.slice) if isinstance(x, ast.Name)}
                rep.ob("O19.1", "R5", fi, w.species_var is not None and w.species_var in idx, alpha(n, fi.node),
                       "the coefficient is added at the walked species' own index", node=n)
    # which vector is the reactant complex?
    chain = []
    for a in c.args[:2]:
        src = origin(defs, a)  # add_complex(y)
        vec = origin(defs, src.args[0]) if isinstance(src, ast.Call) and call_name(src) == "add_complex" and src.args else None
        base = vec.args[0] if isinstance(vec, ast.Call) and call_name(vec) == "tuple" and vec.args else vec
        chain.append(norm(base) if base is not None else None)
    tail_roles = acc_role.get(chain[0], set()) if chain[0] else set()
    head_roles = acc_role.get(chain[1], set()) if chain[1] else set()
    rep.ob("O19.2", "SHAPE", fi, tail_roles == {"reactant"} and head_roles == {"product"}, alpha(c, fi.node),
           "the complex graph has one arc (reactant complex) -> (product complex) per reaction",
           {"tail_roles": sorted(tail_roles), "head_roles": sorted(head_roles)}, node=c)
    gs = guards_of(pm, c, fi.node)
    rep.ob("O19.2", "SHAPE", fi, not gs, "CG.add_edge", "every reaction contributes its arc (no filter)", node=c)
    rn_ok = False
    if lp:
        for d_ in defs.get(norm(lp[0].iter), []):
            if d_.index == (1,) and isinstance(d_.value, ast.Call) and call_name(d_.value) == "_split_species_reactions" and norm(d_.value.args[0]) == Gp:
                rn_ok = True
    rep.ob("O19.2", "SHAPE", fi, rn_ok, lp[0].iter if lp else c, "complexes are collected over all reaction nodes")
    # vectors are reset per reaction
    resets = [n for n in (lp[0].body if lp else []) if isinstance(n, ast.Assign) and norm(n.targets[0]) in (chain[0], chain[1])]
    rep.ob("O19.2", "SHAPE", fi, len(resets) == 2, [alpha(r, fi.node)[:30] for r in resets], "both complex vectors start from zero for every reaction")
    # de-duplication by vector
    ac = rep.f(DF, A + "_complex_vectors.<locals>.add_complex")
    V = ac.params[0]
    first = [st for st in ac.node.body if isinstance(st, ast.If)]
    ok = bool(first) and norm(first[0].test) == f"{V} in {IDX}" and isinstance(first[0].body[0], ast.Return) \
        and norm(first[0].body[0].value) == f"{IDX}[{V}]"
    rep.ob("O19.2", "SHAPE", ac, ok, first[0].test if first else "add_complex", "complexes are the *distinct* multisets: an existing vector is reused")
    b = pall([f"$k = len({CX})", f"{CX}.append({V})", f"{IDX}[{V}] = $k", "return $k"], ac.node)
    rep.ob("O19.2", "SHAPE", ac, b is not None, "idx_map[vec] = k; complexes.append(vec)", "a new complex is registered in the list and in the index map")


def formulas(rep):
    fi = rep.f(DF, A + "compute_summary")
    defs = local_defs(fi.node)
    cvc = [c for c in walk_local(fi.node) if isinstance(c, ast.Call) and call_name(c) == "_complex_vectors"]
    rep.need("SHAPE", len(cvc), 1, "self._complex_vectors(G) in compute_summary")
    Gp = norm(cvc[0].args[0])
    rep.ob("O19.2", "SHAPE", fi, norm(origin(defs, cvc[0].args[0])) == "_as_bipartite(self._crn)", cvc[0], "complexes are built on the bipartite view of the analysed network")

    def atom(n):
        return n.id if isinstance(n, ast.Name) else None
    ds = [c for c in walk_local(fi.node) if isinstance(c, ast.Call) and call_name(c) == "DeficiencySummary"]
    rep.need("SHAPE", len(ds), 1, "DeficiencySummary(...) in compute_summary")
    kws = {}
    for k in ds[0].keywords:
        m = pmatch("int($x)", k.value) or pmatch("bool($x)", k.value)
        kws[k.arg] = m["x"] if m else None
    need = ("deficiency", "n_complexes", "n_linkage_classes", "stoich_rank", "weakly_reversible")
    rep.ob("O19.2", "SHAPE", fi, all(kws.get(k) for k in need), ds[0].func, "the summary reports the computed quantities under their own names",
           {k: kws.get(k) for k in need}, node=ds[0])
    if not all(kws.get(k) for k in need):
        return
    DELTA, NC, NL, RK, WR = (kws[k] for k in need)
    d = [x for x in defs.get(DELTA, []) if x.kind == "assign"]
    rep.need("R15", len(d), 1, "delta assignment in compute_summary")
    try:
        lf = linform(d[0].value, atom)
        ok = lf == Lin({NC: 1, NL: -1, RK: -1})
        rep.ob("O19.2", "R15", fi, ok, alpha(d[0].stmt, fi.node), "deficiency == n_complexes - n_linkage_classes - rank", {"linear_form": lf.pretty()})
    except Undecided as exc:
        rep.ob("O19.2", "R15", fi, None, alpha(d[0].stmt, fi.node), str(exc))
    cv = [x for nm, xs in defs.items() for x in xs if x.index is not None and isinstance(x.value, ast.Call) and call_name(x.value) == "_complex_vectors"]
    by_idx = {x.index: nm for nm, xs in defs.items() for x in xs if x in cv}
    CX, CG = by_idx.get((0,)), by_idx.get((2,))
    nl = origin(defs, ast.Name(id=NL, ctx=ast.Load()))
    ok = isinstance(nl, ast.Call) and call_name(nl) == "number_connected_components" and CG is not None and norm(nl.args[0]) == f"{CG}.to_undirected()"
    rep.ob("O19.2", "SHAPE", fi, ok, nl, "linkage classes = connected components of the undirected complex graph")
    nc = origin(defs, ast.Name(id=NC, ctx=ast.Load()))
    rep.ob("O19.2", "SHAPE", fi, CX is not None and norm(nc) == f"len({CX})", nc, "n_complexes counts the distinct complexes")
    rk = [x for x in defs.get(RK, []) if x.kind == "assign"]
    ok = bool(rk) and f"self._rank_fn({Gp})" in norm(rk[0].value)
    rep.ob("O19.2", "SHAPE", fi, ok, rk[0].stmt if rk else "rank", "rank is the stoichiometric rank of the same view")
    wr = origin(defs, ast.Name(id=WR, ctx=ast.Load()))
    rep.ob("O19.2", "SHAPE", fi, CG is not None and norm(wr) == f"self._is_weakly_reversible({CG})", wr, "weak reversibility is evaluated on the complex graph")
    st_cg = [n for n in walk_local(fi.node) if isinstance(n, ast.Assign) and norm(n.targets[0]) == "self._complex_graph"]
    st_cx = [n for n in walk_local(fi.node) if isinstance(n, ast.Assign) and norm(n.targets[0]) == "self._complexes"]
    rep.ob("O19.2", "SHAPE", fi, len(st_cg) == 1 and norm(st_cg[0].value) == CG and len(st_cx) == 1 and norm(st_cx[0].value) == CX, "self._complex_graph / self._complexes",
           "the complex graph and the complexes used later are the ones computed here")
    init = rep.f(DF, A + "__init__")
    dflt = default_of(init, "rank_fn")
    rep.ob("O19.2", "SHAPE", init, dflt is not None and norm(dflt) == "stoichiometric_rank", dflt if dflt is not None else "rank_fn",
           "the default rank function is stoichiometric_rank")
    imp = rep.repo.module(DF).imports.get("stoichiometric_rank", "")
    rep.ob("O19.2", "SHAPE", f"{DF}:<module>", imp.endswith("stoich.stoichiometric_rank"), f"import <- {imp}", "stoichiometric_rank is the one of Props.stoich")
    sr = rep.f(ST, "stoichiometric_rank")
    rets = returns_of(sr.node)
    ok = False
    if len(rets) == 1:
        mr = [c for c in ast.walk(rets[0].value) if isinstance(c, ast.Call) and call_name(c) == "matrix_rank"]
        ok = bool(mr) and pmatch(f"stoichiometric_matrix({sr.params[0]})", origin(local_defs(sr.node), mr[0].args[0])) is not None
    rep.ob("O19.2", "SHAPE", sr, ok, rets[0] if rets else "return", "rank = matrix_rank of the stoichiometric matrix")
    # linkage-class deficiencies
    lf_fi = rep.f(DF, A + "compute_linkage_deficiencies")
    ld = local_defs(lf_fi.node)
    st_l = [n for n in walk_local(lf_fi.node) if isinstance(n, ast.Assign) and norm(n.targets[0]) == "self._linkage_deficiencies"]
    OUT = norm(st_l[0].value) if len(st_l) == 1 else None
    apps = [c for c in walk_local(lf_fi.node) if isinstance(c, ast.Call) and norm(c.func) == f"{OUT}.append"]
    rep.need("R15", len(apps), 1, "lc_defs.append")
    lps_ = enclosing_loops(parent_map(lf_fi.node), apps[0], lf_fi.node)
    lc = norm(lps_[0].target) if lps_ else "?"
    try:
        lf = linform(apps[0].args[0], atom)
        names = [k for k in lf if isinstance(k, str)]
        nl_ = [k for k in names if norm(origin(ld, ast.Name(id=k, ctx=ast.Load()))) == f"len({lc})"]
        sl_ = [k for k in names if norm(origin(ld, ast.Name(id=k, ctx=ast.Load()))) == f"self._linkage_class_stoich_rank({lc})"]
        ok = len(nl_) == 1 and len(sl_) == 1 and lf == Lin({nl_[0]: 1, 1: -1, sl_[0]: -1})
        rep.ob("O19.2", "R15", lf_fi, ok, alpha(apps[0], lf_fi.node), "delta_l == n_l - 1 - s_l", {"linear_form": lf.pretty()})
    except Undecided as exc:
        rep.ob("O19.2", "R15", lf_fi, None, alpha(apps[0], lf_fi.node), str(exc))
    its = origin(ld, lps_[0].iter) if lps_ else None
    m = pmatch("list(nx.connected_components($und))", its) or pmatch("nx.connected_components($und)", its)
    ok = m is not None and norm(origin(ld, ast.Name(id=m["und"], ctx=ast.Load()))) == "self._complex_graph.to_undirected()"
    rep.ob("O19.2", "SHAPE", lf_fi, ok, "n_l, s_l, lcs", "per-class quantities are taken over the components of the undirected complex graph")
    # per-class rank: differences product - reactant over arcs inside the class
    lr = rep.f(DF, A + "_linkage_class_stoich_rank")
    ldefs = local_defs(lr.node)
    cols = [c for c in walk_local(lr.node) if isinstance(c, ast.Call) and call_name(c) == "column_stack"]
    DV = norm(cols[0].args[0]) if cols else None
    dapp = [c for c in walk_local(lr.node) if DV and isinstance(c, ast.Call) and norm(c.func) == f"{DV}.append"]
    DIFF = norm(dapp[0].args[0]) if dapp else None
    diff = [x for x in ldefs.get(DIFF or "", []) if x.kind == "assign"]
    ok = False
    dl = []
    if diff and isinstance(diff[0].value, ast.BinOp) and isinstance(diff[0].value.op, ast.Sub):
        dl = enclosing_loops(parent_map(lr.node), diff[0].stmt, lr.node)
        if dl and isinstance(dl[0].target, ast.Tuple) and len(dl[0].target.elts) == 2:
            u, v = [norm(e) for e in dl[0].target.elts]
            hi = origin(ldefs, diff[0].value.left)
            lo = origin(ldefs, diff[0].value.right)
            ok = f"self._complexes[{v}]" in norm(hi) and f"self._complexes[{u}]" in norm(lo)
    rep.ob("O19.2", "R15", lr, ok, alpha(diff[0].stmt, lr.node) if diff else "diff", "per-class rank spans the complex differences (product complex minus reactant complex) of the class's reactions")
    oke = len(dl) >= 1 and (pmatch("$s.edges()", dl[0].iter) is not None or pmatch("$s.edges", dl[0].iter) is not None)
    rep.ob("O19.2", "SHAPE", lr, oke, dl[0].iter if dl else "for u, v in sub.edges()",
           "one difference vector per reaction arc of the class (tree/BFS edges of the *directed* complex graph do not reach every complex)")
    ok = False
    if oke:
        sm = pmatch("$s.edges()", dl[0].iter) or pmatch("$s.edges", dl[0].iter)
        ssrc = origin(ldefs, ast.Name(id=sm["s"], ctx=ast.Load()))
        m2 = pmatch("self._complex_graph.subgraph($n)", ssrc)
        ok = m2 is not None and norm(origin(ldefs, ast.Name(id=m2["n"], ctx=ast.Load()))) in (f"list({lr.params[1]})", lr.params[1])
    rep.ob("O19.2", "SHAPE", lr, ok, "sub = self._complex_graph.subgraph(nodes)", "only reactions inside the linkage class contribute")


def definitions(rep):
    fi = rep.f(DF, A + "_is_weakly_reversible")
    P = fi.params[0]
    defs = local_defs(fi.node)
    loops = [n for n in walk_local(fi.node) if isinstance(n, ast.For)]
    rep.need("SHAPE", len(loops), 1, "component loop in _is_weakly_reversible")
    lp = loops[0]
    it = origin(defs, lp.iter)
    und = None
    if isinstance(it, ast.Call) and call_name(it) == "connected_components" and it.args:
        und = origin(defs, it.args[0])
    ok = und is not None and norm(und) == f"{P}.to_undirected()"
    rep.ob("O19.2", "SHAPE", fi, ok, lp.iter, "weak reversibility is tested per linkage class (component of the undirected complex graph)")
    sc = [c for c in walk_local(lp) if isinstance(c, ast.Call) and call_name(c) == "is_strongly_connected"]
    ok = False
    if sc:
        arg = origin(defs, sc[0].args[0])
        ok = norm(arg) == f"{P}.subgraph({norm(lp.target)})"
    rep.ob("O19.2", "SHAPE", fi, ok, sc[0] if sc else "is_strongly_connected", "each linkage class must be strongly connected as a directed subgraph")
    pm = parent_map(fi.node)
    rets = returns_of(fi.node)
    shape = [(norm(r.value), [(norm(t), s) for t, s in guards_of(pm, r, fi.node)]) for r in rets]
    okr = len(rets) == 2 and shape[0][0] == "False" and len(shape[0][1]) == 1 and shape[0][1][0][0].startswith("nx.is_strongly_connected") \
        and not shape[0][1][0][1] and shape[1] == ("True", [])
    rep.ob("O19.2", "SHAPE", fi, okr, str(shape), "False exactly when some class is not strongly connected, True otherwise")
    d0 = rep.f(DF, A + "check_deficiency_zero")
    rets = returns_of(d0.node)
    ok = bool(rets) and norm(rets[-1].value) == "self._summary.deficiency == 0 and self._summary.weakly_reversible"
    rep.ob("O19.2", "SHAPE", d0, ok, rets[-1] if rets else "return", "deficiency-zero check = (deficiency == 0) and weakly reversible")


MUTANTS = [
    dict(name="revert F-C19 (undirected-style walk)", file=DF, expect="O19.1",
         old='            for s_node, _, data in G.in_edges(r, data=True):\n                if s_node in species_index and data.get("role") == "reactant":\n                    lhs[species_index[s_node]] += int(data.get("stoich", 1))',
         new='            for u, v, data in G.edges(r, data=True):\n                s_node = v if u == r else u\n                if s_node in species_index and data.get("role") == "reactant":\n                    lhs[species_index[s_node]] += int(data.get("stoich", 1))'),
    dict(name="products read from in-arcs", file=DF, expect="O19.1",
         old="            for _, s_node, data in G.out_edges(r, data=True):", new="            for s_node, _, data in G.in_edges(r, data=True):"),
    dict(name="wrong endpoint of the in-arc", file=DF, expect="O19.1",
         old="            for s_node, _, data in G.in_edges(r, data=True):", new="            for _, s_node, data in G.in_edges(r, data=True):"),
    dict(name="deficiency sign of rank", file=DF, expect="O19.2", old="delta = int(n_complexes - n_link - rank)", new="delta = int(n_complexes - n_link + rank)"),
    dict(name="complex arc reversed", file=DF, expect="O19.2", old="            CG.add_edge(u_idx, v_idx)", new="            CG.add_edge(v_idx, u_idx)"),
    dict(name="linkage classes from strong components", file=DF, expect="O19.2",
         old="        n_link = nx.number_connected_components(CG.to_undirected())", new="        n_link = nx.number_strongly_connected_components(CG)"),
    dict(name="coefficients ignored", file=DF, expect="O19.1",
         old='                    rhs[species_index[s_node]] += int(data.get("stoich", 1))', new='                    rhs[species_index[s_node]] += 1'),
    dict(name="complexes not de-duplicated", file=DF, expect="O19.2",
         old="            if vec in idx_map:\n                return idx_map[vec]\n", new=""),
    dict(name="weak reversibility on the whole graph", file=DF, expect="O19.2",
         old="        for comp in nx.connected_components(und):\n            sub = G.subgraph(comp)\n            if not nx.is_strongly_connected(sub):",
         new="        for comp in nx.connected_components(und):\n            sub = und.subgraph(comp)\n            if not nx.is_strongly_connected(sub.to_directed()):"),
    dict(name="per-class deficiency off by one", file=DF, expect="O19.2", old="lc_defs.append(int(n_l - 1 - s_l))", new="lc_defs.append(int(n_l - s_l))"),
    dict(name="writer flips product arcs", file=CV, expect="O19.1", old="            G.add_edge(rnode, v, **attrs)", new="            G.add_edge(v, rnode, **attrs)"),
    dict(name="lhs accumulates products", file=DF, expect="O19.2",
         old='                if s_node in species_index and data.get("role") == "product":\n                    rhs[species_index[s_node]]',
         new='                if s_node in species_index and data.get("role") == "product":\n                    lhs[species_index[s_node]]'),
    dict(name="as_bipartite returns undirected graphs as is", file=CV, expect="O19.1",
         old="            nx.MultiDiGraph,\n        ),\n    ):\n        return crn if isinstance(crn, nx.DiGraph) else nx.DiGraph(crn)", new="            nx.MultiDiGraph,\n        ),\n    ):\n        return crn"),
    dict(name="revert F-C19", revert_patch="notes/fixes/C19.patch", expect="O19.1"),
]

TWINS = [
    dict(name="walk with predecessors-style unpack names", file=DF,
         old="            for s_node, _, data in G.in_edges(r, data=True):", new="            for s_node, _r, data in G.in_edges(r, data=True):"),
    dict(name="delta with reordered terms", file=DF, old="delta = int(n_complexes - n_link - rank)", new="delta = int(-rank + n_complexes - n_link)"),
]


def netfold(rep):
    from ..rules import netfold as NF
    NF.check(rep, "O19.2", (ST, DF, "synkit/CRN/Hypergraph/conversion.py"), "rank(S) and the deficiency are wrong")
