"""C19 - complexes, linkage classes and deficiency follow their definitions."""
from __future__ import annotations

import ast

from ..absval import Lin, Undecided, linform
from ..core import (AnalysisError, alpha, call_name, dotted, is_const, local_defs, norm, origin, parent_map,
                    walk_local, kwarg)
from ..facts import guards_of, returns_of, enclosing_loops, default_of, if_leaves
from ..rules import walk as W
from ..pattern import pmatch, pfind, pall

DF = "synkit/CRN/Props/deficiency.py"
ST = "synkit/CRN/Props/stoich.py"
CV = "synkit/CRN/Hypergraph/conversion.py"
A = "DeficiencyAnalyzer."

META = {
    "explanation": (
        "R5 directed walk: the bipartite view is an nx.DiGraph (gkind through _as_bipartite / hypergraph_to_bipartite); "
        "the writer table extracted from hypergraph_to_bipartite says role='reactant' sits on arcs INTO a reaction node "
        "and role='product' on arcs OUT of it. Every per-reaction walk in _complex_vectors must enumerate the arcs of "
        "the direction its role test needs (an out-arc walk that tests 'reactant' is dead code and leaves every "
        "reactant complex zero), take the species end of the arc, and accumulate reactants into the lhs and products "
        "into the rhs vector with the writer's 'stoich' key. R15: deficiency == n_complexes - n_linkage - rank and "
        "delta_l == n_l - 1 - s_l as linear forms; complex graph arc reactant->product; complexes de-duplicated by "
        "vector; linkage classes = components of the undirected complex graph; weak reversibility = each such "
        "component strongly connected (read on the load-time normal form: search loops as all(..), accumulate loops as "
        "comprehensions); check_deficiency_zero is tabulated over (deficiency, weakly reversible)."
    ),
    "rules": {"R5": "directed-walk rule (DiGraph out-arc semantics + writer role table)",
              "R3b": "edge attribute key agreement with the writer", "R15": "symbolic arithmetic of the deficiency formulas",
              "SHAPE": "definition shape of linkage classes / weak reversibility / complex graph"},
    "not_decided": "non-negativity of the deficiency and sub-additivity over linkage classes (values); numerical rank",
    "trusted_base": ["CPython ast", "sa/* analyser", "networkx DiGraph.edges(n)/in_edges/out_edges semantics", "nx.connected_components / is_strongly_connected"],
    "assumptions": ["the bipartite view is produced by hypergraph_to_bipartite (role/stoich on arcs)"],
}


def run(rep):
    from ..rules import walk as _W
    rep.run(_W.writer_sides_independent, "O19.1")
    rep.run(_W.view_is_complete, "O19.1")
    table = W.writer_table(rep.repo)
    rep.extra["writer_role_table"] = table
    conv = rep.f(CV, "hypergraph_to_bipartite")
    rep.ob("O19.1", "R5", conv, table["reactant"]["dir"] == "in" and table["product"]["dir"] == "out",
           f"writer: {table}", "view writer: reactant arcs run species->reaction, product arcs reaction->species")
    asb = rep.f(CV, "_as_bipartite")
    rets = returns_of(asb.node)
    apm = parent_map(asb.node)

    def directed(v, guards):
        """the value is a DiGraph: built by the view writer / nx.DiGraph(..), or an input already tested to be one"""
        if isinstance(v, ast.IfExp):
            return directed(v.body, guards + [(v.test, True)]) and directed(v.orelse, guards + [(v.test, False)])
        if isinstance(v, ast.Call) and (call_name(v) == "hypergraph_to_bipartite" or norm(v.func) in ("nx.DiGraph", "DiGraph", "networkx.DiGraph")):
            return True
        if isinstance(v, ast.Name):
            return any(s_ and pmatch(f"isinstance({v.id}, nx.DiGraph)", t_) is not None for t_, s_ in guards)
        return False
    kinds = [directed(r.value, list(guards_of(apm, r, asb.node))) for r in rets]
    rep.ob("O19.1", "R5", asb, all(kinds) and bool(kinds), [norm(r.value)[:60] for r in rets],
           "_as_bipartite always returns a directed graph")
    rep.run(complex_vectors, table)
    rep.run(formulas)
    rep.run(definitions)
    rep.run(netfold)


def complex_vectors(rep, table):
    fi = rep.f(DF, A + "_complex_vectors")
    Gp = fi.params[1]
    directed = W.graph_is_directed(rep.repo, fi, Gp)
    rep.ob("O19.1", "R5", fi, True if directed else None, Gp, "the graph walked in _complex_vectors is the directed bipartite view",
           {"directed": directed}, node=fi.node)
    pm = parent_map(fi.node)
    defs = local_defs(fi.node)
    rets = returns_of(fi.node)
    rm = pmatch("($complexes, $idx, $cg)", rets[-1].value) if rets else None
    if rm is None:
        raise AnalysisError("_complex_vectors no longer returns (complexes, index map, complex graph)")
    CG, IDX, CX = rm["cg"], rm["idx"], rm["complexes"]
    adds = [c for c in walk_local(fi.node) if isinstance(c, ast.Call) and norm(c.func) == f"{CG}.add_edge"]
    rep.need("SHAPE", len(adds), 1, "CG.add_edge in _complex_vectors")
    c = adds[0]
    lp = enclosing_loops(pm, c, fi.node)
    rnode = norm(lp[0].target) if lp else None
    ws = [w for w in W.walks(fi, graph_names=(Gp,)) if w.node == rnode]
    rep.need("R5", len(ws), 1, "per-reaction arc walks in _complex_vectors")
    acc_role = {}
    for w in ws:
        if not w.roles_tested:
            rep.ob("O19.1", "R5", fi, None, w.loop.iter, "walk without a role test", node=w.loop)
        for role, cmp_ in w.roles_tested:
            want = table.get(role, {}).get("dir")
            ok = (want == w.direction) if want else None
            rep.ob("O19.1", "R5", fi, ok, f"G.{w.method}(r) tests role == '{role}'",
                   f"arcs with role '{role}' are {want}-arcs of a reaction node; G.{w.method}(r) on a DiGraph enumerates {w.direction}-arcs "
                   f"(a mismatch makes the branch dead and the {role} complex empty)", {"walk_direction": w.direction, "writer_direction": want},
                   node=w.loop)
        rep.ob("O19.1", "R5", fi, w.species_pos_ok, f"species end of G.{w.method}(r)",
               "the species end of the arc is the end that is not the reaction node", {"species_var": w.species_var}, node=w.loop)
        # accumulations inside this walk:  vec[i] += c   /   d[k] = d.get(k, 0) + c
        for n in walk_local(w.loop):
            acc = None
            if isinstance(n, ast.AugAssign) and isinstance(n.target, ast.Subscript) and isinstance(n.op, ast.Add):
                acc = (n.target, n.value)
            elif isinstance(n, ast.Assign) and len(n.targets) == 1 and isinstance(n.targets[0], ast.Subscript) and isinstance(n.value, ast.BinOp) and isinstance(n.value.op, ast.Add) \
                    and pmatch(f"{norm(n.targets[0].value)}.get({norm(n.targets[0].slice)}, 0)", n.value.left) is not None:
                acc = (n.targets[0], n.value.right)
            if acc is None:
                continue
            tgt_, v = acc
            vec = norm(tgt_.value)
            gs = guards_of(pm, n, w.loop)
            roles_here = [b.value for t, s in gs if s for c_ in ast.walk(t) if isinstance(c_, ast.Compare)
                          for b in c_.comparators if isinstance(b, ast.Constant) and isinstance(b.value, str) and "role" in norm(c_.left)]
            acc_role.setdefault(vec, set()).update(roles_here)
            # coefficient: this arc's 'stoich', 1 when the arc carries none (the same default the stoichiometric matrix uses)
            vsrc = origin(local_defs(w.loop), v) if isinstance(v, ast.Name) else v
            getc = [c_ for c_ in ast.walk(vsrc) if isinstance(c_, ast.Call) and call_name(c_) == "get"]
            okk = bool(getc) and is_const(getc[0].args[0], "stoich") and w.data_var is not None and norm(getc[0].func.value) == w.data_var \
                and len(getc[0].args) > 1 and is_const(getc[0].args[1]) and getc[0].args[1].value == 1
            rep.ob("O19.1", "R3b", fi, okk, alpha(n, fi.node), "the complex entry adds this arc's 'stoich' coefficient (default 1)", node=n)
            idx = {x.id for x in ast.walk(tgt_.slice) if isinstance(x, ast.Name)}
            rep.ob("O19.1", "R5", fi, w.species_var is not None and w.species_var in idx, alpha(n, fi.node),
                   "the coefficient is added at the walked species' own index", node=n)
    # a side that was first collected into a dict {species: coefficient} and is then copied into the vector: the vector inherits the dict's role
    for lp2 in [l for l in walk_local(fi.node) if isinstance(l, ast.For) and pmatch("$d.items()", l.iter) is not None]:
        dname = pmatch("$d.items()", lp2.iter)["d"]
        if dname not in acc_role or not (isinstance(lp2.target, ast.Tuple) and len(lp2.target.elts) == 2):
            continue
        kv, cv = [norm(e) for e in lp2.target.elts]
        for n in walk_local(lp2):
            if isinstance(n, ast.AugAssign) and isinstance(n.target, ast.Subscript) and isinstance(n.op, ast.Add):
                vec = norm(n.target.value)
                acc_role.setdefault(vec, set()).update(acc_role[dname])
                okc = norm(n.value) in (cv, f"int({cv})")
                rep.ob("O19.1", "R3b", fi, okc, alpha(n, fi.node), "the collected coefficient of the species is what enters the complex vector", node=n)
                idx = {x.id for x in ast.walk(n.target.slice) if isinstance(x, ast.Name)}
                rep.ob("O19.1", "R5", fi, kv in idx, alpha(n, fi.node), "the coefficient is added at the collected species' own index", node=n)
    # which vector is the reactant complex?
    chain = []
    for a in c.args[:2]:
        src = origin(defs, a)  # add_complex(y)
        vec = origin(defs, src.args[0]) if isinstance(src, ast.Call) and call_name(src) == "add_complex" and src.args else None
        base = vec.args[0] if isinstance(vec, ast.Call) and call_name(vec) == "tuple" and vec.args else vec
        chain.append(norm(base) if base is not None else None)
    tail_roles = acc_role.get(chain[0], set()) if chain[0] else set()
    head_roles = acc_role.get(chain[1], set()) if chain[1] else set()
    rep.ob("O19.2", "SHAPE", fi, tail_roles == {"reactant"} and head_roles == {"product"}, alpha(c, fi.node),
           "the complex graph has one arc (reactant complex) -> (product complex) per reaction",
           {"tail_roles": sorted(tail_roles), "head_roles": sorted(head_roles)}, node=c)
    gs = guards_of(pm, c, fi.node)
    rep.ob("O19.2", "SHAPE", fi, not gs, "CG.add_edge", "every reaction contributes its arc (no filter)", node=c)
    rn_ok = False
    if lp:
        for d_ in defs.get(norm(lp[0].iter), []):
            if d_.index == (1,) and isinstance(d_.value, ast.Call) and call_name(d_.value) == "_split_species_reactions" and norm(d_.value.args[0]) == Gp:
                rn_ok = True
    rep.ob("O19.2", "SHAPE", fi, rn_ok, lp[0].iter if lp else c, "complexes are collected over all reaction nodes")
    # vectors are reset per reaction
    resets = [n for n in (lp[0].body if lp else []) if isinstance(n, ast.Assign) and norm(n.targets[0]) in (chain[0], chain[1])]
    rep.ob("O19.2", "SHAPE", fi, len(resets) == 2, [alpha(r, fi.node)[:30] for r in resets], "both complex vectors start from zero for every reaction")
    # de-duplication by vector
    ac = rep.f(DF, A + "_complex_vectors.<locals>.add_complex")
    V = ac.params[0]
    first = [st for st in ac.node.body if isinstance(st, ast.If)]
    ok = bool(first) and norm(first[0].test) == f"{V} in {IDX}" and isinstance(first[0].body[0], ast.Return) \
        and norm(first[0].body[0].value) == f"{IDX}[{V}]"
    rep.ob("O19.2", "SHAPE", ac, ok, first[0].test if first else "add_complex", "complexes are the *distinct* multisets: an existing vector is reused")
    b = pall([f"$k = len({CX})", f"{CX}.append({V})", f"{IDX}[{V}] = $k", "return $k"], ac.node)
    rep.ob("O19.2", "SHAPE", ac, b is not None, "idx_map[vec] = k; complexes.append(vec)", "a new complex is registered in the list and in the index map")


def formulas(rep):
    fi = rep.f(DF, A + "compute_summary")
    defs = local_defs(fi.node)
    cvc = [c for c in walk_local(fi.node) if isinstance(c, ast.Call) and call_name(c) == "_complex_vectors"]
    rep.need("SHAPE", len(cvc), 1, "self._complex_vectors(G) in compute_summary")
    Gp = norm(cvc[0].args[0])
    rep.ob("O19.2", "SHAPE", fi, norm(origin(defs, cvc[0].args[0])) == "_as_bipartite(self._crn)", cvc[0], "complexes are built on the bipartite view of the analysed network")

    def atom(n):
        return n.id if isinstance(n, ast.Name) else None
    ds = [c for c in walk_local(fi.node) if isinstance(c, ast.Call) and call_name(c) == "DeficiencySummary"]
    rep.need("SHAPE", len(ds), 1, "DeficiencySummary(...) in compute_summary")
    kws = {}
    for k in ds[0].keywords:
        m = pmatch("int($x)", k.value) or pmatch("bool($x)", k.value)
        kws[k.arg] = m["x"] if m else None
    need = ("deficiency", "n_complexes", "n_linkage_classes", "stoich_rank", "weakly_reversible")
    rep.ob("O19.2", "SHAPE", fi, all(kws.get(k) for k in need), ds[0].func, "the summary reports the computed quantities under their own names",
           {k: kws.get(k) for k in need}, node=ds[0])
    if not all(kws.get(k) for k in need):
        return
    DELTA, NC, NL, RK, WR = (kws[k] for k in need)
    d = [x for x in defs.get(DELTA, []) if x.kind == "assign"]
    rep.need("R15", len(d), 1, "delta assignment in compute_summary")
    try:
        lf = linform(d[0].value, atom)
        ok = lf == Lin({NC: 1, NL: -1, RK: -1})
        rep.ob("O19.2", "R15", fi, ok, alpha(d[0].stmt, fi.node), "deficiency == n_complexes - n_linkage_classes - rank", {"linear_form": lf.pretty()})
    except Undecided as exc:
        rep.ob("O19.2", "R15", fi, None, alpha(d[0].stmt, fi.node), str(exc))
    cv = [x for nm, xs in defs.items() for x in xs if x.index is not None and isinstance(x.value, ast.Call) and call_name(x.value) == "_complex_vectors"]
    by_idx = {x.index: nm for nm, xs in defs.items() for x in xs if x in cv}
    CX, CG = by_idx.get((0,)), by_idx.get((2,))
    nl = origin(defs, ast.Name(id=NL, ctx=ast.Load()))
    ok = isinstance(nl, ast.Call) and call_name(nl) == "number_connected_components" and CG is not None and norm(nl.args[0]) == f"{CG}.to_undirected()"
    # the weakly connected components of a directed graph ARE the connected components of its undirected version
    ok = ok or (isinstance(nl, ast.Call) and call_name(nl) == "number_weakly_connected_components" and CG is not None and nl.args and norm(nl.args[0]) == CG)
    rep.ob("O19.2", "SHAPE", fi, ok, nl, "linkage classes = connected components of the undirected complex graph")
    nc = origin(defs, ast.Name(id=NC, ctx=ast.Load()))
    rep.ob("O19.2", "SHAPE", fi, CX is not None and norm(nc) == f"len({CX})", nc, "n_complexes counts the distinct complexes")
    rk = [x for x in defs.get(RK, []) if x.kind == "assign"]
    ok = bool(rk) and f"self._rank_fn({Gp})" in norm(rk[0].value)
    rep.ob("O19.2", "SHAPE", fi, ok, rk[0].stmt if rk else "rank", "rank is the stoichiometric rank of the same view")
    wr = origin(defs, ast.Name(id=WR, ctx=ast.Load()))
    rep.ob("O19.2", "SHAPE", fi, CG is not None and norm(wr) == f"self._is_weakly_reversible({CG})", wr, "weak reversibility is evaluated on the complex graph")
    st_cg = [n for n in walk_local(fi.node) if isinstance(n, ast.Assign) and norm(n.targets[0]) == "self._complex_graph"]
    st_cx = [n for n in walk_local(fi.node) if isinstance(n, ast.Assign) and norm(n.targets[0]) == "self._complexes"]
    rep.ob("O19.2", "SHAPE", fi, len(st_cg) == 1 and norm(st_cg[0].value) == CG and len(st_cx) == 1 and norm(st_cx[0].value) == CX, "self._complex_graph / self._complexes",
           "the complex graph and the complexes used later are the ones computed here")
    init = rep.f(DF, A + "__init__")
    dflt = default_of(init, "rank_fn")
    rep.ob("O19.2", "SHAPE", init, dflt is not None and norm(dflt) == "stoichiometric_rank", dflt if dflt is not None else "rank_fn",
           "the default rank function is stoichiometric_rank")
    imp = rep.repo.module(DF).imports.get("stoichiometric_rank", "")
    rep.ob("O19.2", "SHAPE", f"{DF}:<module>", imp.endswith("stoich.stoichiometric_rank"), f"import <- {imp}", "stoichiometric_rank is the one of Props.stoich")
    sr = rep.f(ST, "stoichiometric_rank")
    rets = returns_of(sr.node)
    ok = False
    if len(rets) == 1:
        mr = [c for c in ast.walk(rets[0].value) if isinstance(c, ast.Call) and call_name(c) == "matrix_rank"]
        ok = bool(mr) and pmatch(f"stoichiometric_matrix({sr.params[0]})", origin(local_defs(sr.node), mr[0].args[0])) is not None
    rep.ob("O19.2", "SHAPE", sr, ok, rets[0] if rets else "return", "rank = matrix_rank of the stoichiometric matrix")
    # linkage-class deficiencies
    lf_fi = rep.f(DF, A + "compute_linkage_deficiencies")
    ld = local_defs(lf_fi.node)
    st_l = [n for n in walk_local(lf_fi.node) if isinstance(n, ast.Assign) and norm(n.targets[0]) == "self._linkage_deficiencies"]
    # (normal form N11: an accumulate loop `out = []; for c in X: ...; out.append(E)` reads `out = [E for c in X]`)
    comp = origin(ld, st_l[0].value) if len(st_l) == 1 else None
    comps = [comp] if isinstance(comp, ast.ListComp) and len(comp.generators) == 1 else []
    rep.need("R15", len(comps), 1, "list of per-class deficiencies")
    g0 = comp.generators[0]
    lc = norm(g0.target)

    def class_atom(n):
        src = origin(ld, n) if isinstance(n, ast.Name) else n
        if norm(src) == f"len({lc})":
            return "n_l"
        if norm(src) == f"self._linkage_class_stoich_rank({lc})":
            return "s_l"
        return n.id if isinstance(n, ast.Name) else None
    try:
        lf = linform(comp.elt, class_atom)
        ok = lf == Lin({"n_l": 1, 1: -1, "s_l": -1}) and not g0.ifs
        rep.ob("O19.2", "R15", lf_fi, ok, alpha(comp.elt, lf_fi.node), "delta_l == n_l - 1 - s_l", {"linear_form": lf.pretty()})
    except Undecided as exc:
        rep.ob("O19.2", "R15", lf_fi, None, alpha(comp.elt, lf_fi.node), str(exc))
    its = origin(ld, g0.iter)
    m = pmatch("list(nx.connected_components($$und))", its) or pmatch("nx.connected_components($$und)", its)
    und_e = (its.args[0].args[0] if call_name(its) == "list" else its.args[0]) if m is not None else None
    ok = und_e is not None and norm(origin(ld, und_e)) == "self._complex_graph.to_undirected()"
    rep.ob("O19.2", "SHAPE", lf_fi, ok, "n_l, s_l, lcs", "per-class quantities are taken over the components of the undirected complex graph")
    # per-class rank: differences product - reactant over arcs inside the class
    lr = rep.f(DF, A + "_linkage_class_stoich_rank")
    ldefs = local_defs(lr.node)
    cols = [c for c in walk_local(lr.node) if isinstance(c, ast.Call) and call_name(c) == "column_stack"]
    dv = origin(ldefs, cols[0].args[0]) if cols else None
    ok = False
    dgen = None
    if isinstance(dv, ast.ListComp) and len(dv.generators) == 1:
        dgen = dv.generators[0]
        # the differences may come from an intermediate generator: [d for d in (<hi> - <lo> for u, v in sub.edges()) if ...]
        elt = dv.elt
        if isinstance(elt, ast.Name) and norm(dgen.target) == elt.id:
            inner = origin(ldefs, dgen.iter)
            if isinstance(inner, (ast.GeneratorExp, ast.ListComp)) and len(inner.generators) == 1 and not inner.generators[0].ifs:
                elt, dgen = inner.elt, inner.generators[0]
        if isinstance(elt, ast.BinOp) and isinstance(elt.op, ast.Sub) and isinstance(dgen.target, ast.Tuple) and len(dgen.target.elts) == 2:
            u, v = [norm(e) for e in dgen.target.elts]
            ok = f"self._complexes[{v}]" in norm(elt.left) and f"self._complexes[{u}]" in norm(elt.right) \
                and f"self._complexes[{u}]" not in norm(elt.left) and f"self._complexes[{v}]" not in norm(elt.right)
    rep.ob("O19.2", "R15", lr, ok, alpha(dv, lr.node)[:90] if dv is not None else "diff",
           "per-class rank spans the complex differences (product complex minus reactant complex) of the class's reactions")
    dl_iter = origin(ldefs, dgen.iter) if dgen is not None else None
    oke = dl_iter is not None and (pmatch("$s.edges()", dl_iter) is not None or pmatch("$s.edges", dl_iter) is not None)
    rep.ob("O19.2", "SHAPE", lr, oke, dl_iter if dl_iter is not None else "for u, v in sub.edges()",
           "one difference vector per reaction arc of the class (tree/BFS edges of the *directed* complex graph do not reach every complex)")

    class _It:
        pass
    dl = [_It()]
    dl[0].iter = dl_iter
    ok = False
    if oke:
        sm = pmatch("$s.edges()", dl[0].iter) or pmatch("$s.edges", dl[0].iter)
        ssrc = origin(ldefs, ast.Name(id=sm["s"], ctx=ast.Load()))
        m2 = pmatch("self._complex_graph.subgraph($n)", ssrc)
        ok = m2 is not None and norm(origin(ldefs, ast.Name(id=m2["n"], ctx=ast.Load()))) in (f"list({lr.params[1]})", lr.params[1])
    rep.ob("O19.2", "SHAPE", lr, ok, "sub = self._complex_graph.subgraph(nodes)", "only reactions inside the linkage class contribute")


def definitions(rep):
    fi = rep.f(DF, A + "_is_weakly_reversible")
    P = fi.params[0]
    defs = local_defs(fi.node)
    # (normal form N13: `for c in X: if not p(c): return False` + `return True` reads `return all(p(c) for c in X)`)
    rets = returns_of(fi.node)
    alls = [origin(defs, r.value) for r in rets]
    alls = [a_ for a_ in alls if isinstance(a_, ast.Call) and norm(a_.func) == "all" and len(a_.args) == 1 and isinstance(a_.args[0], (ast.GeneratorExp, ast.ListComp))
            and len(a_.args[0].generators) == 1]
    if not alls:
        # counting form: every weak component is a disjoint union of strong ones, so "each weak component is strongly connected" <=> the two counts agree
        cnt = []
        for r in rets:
            for leaf in if_leaves(origin(defs, r.value)) if r.value is not None else []:
                if isinstance(leaf, ast.Constant):
                    continue
                m_ = pmatch("$a == $b", leaf)
                if m_:
                    srcs = {call_name(origin(defs, ast.Name(id=m_[k_], ctx=ast.Load()))) if isinstance(origin(defs, ast.Name(id=m_[k_], ctx=ast.Load())), ast.Call) else None for k_ in ("a", "b")}
                    args = {norm(origin(defs, ast.Name(id=m_[k_], ctx=ast.Load())).args[0]) for k_ in ("a", "b")
                            if isinstance(origin(defs, ast.Name(id=m_[k_], ctx=ast.Load())), ast.Call) and origin(defs, ast.Name(id=m_[k_], ctx=ast.Load())).args}
                    cnt.append(srcs == {"number_strongly_connected_components", "number_weakly_connected_components"} and args == {P})
                else:
                    cnt.append(None)
        if cnt and all(c is True for c in cnt):
            rep.ob("O19.2", "SHAPE", fi, True, rets[-1], "weak reversibility: the number of strong components equals the number of weak components (each linkage class strongly connected)")
        else:
            rep.ob("O19.2", "SHAPE", fi, None, rets[-1] if rets else "return", "weak reversibility is decided in a way this rule does not read (neither the per-class loop nor the component counts)")
    else:
        _per_class(rep, fi, P, defs, rets, alls)
    _deficiency_zero(rep)


def _per_class(rep, fi, P, defs, rets, alls):
    gen = alls[0].args[0]
    g0 = gen.generators[0]
    it = origin(defs, g0.iter)
    und = None
    if isinstance(it, ast.Call) and call_name(it) == "connected_components" and it.args:
        und = origin(defs, it.args[0])
    ok = und is not None and norm(und) == f"{P}.to_undirected()" and not g0.ifs
    rep.ob("O19.2", "SHAPE", fi, ok, g0.iter, "weak reversibility is tested per linkage class (component of the undirected complex graph)")
    sc = gen.elt if isinstance(gen.elt, ast.Call) and call_name(gen.elt) == "is_strongly_connected" and gen.elt.args else None
    ok = sc is not None and norm(origin(defs, sc.args[0])) == f"{P}.subgraph({norm(g0.target)})"
    rep.ob("O19.2", "SHAPE", fi, ok, gen.elt, "each linkage class must be strongly connected as a directed subgraph")
    okr = len(rets) == 1 and sc is not None
    rep.ob("O19.2", "SHAPE", fi, okr, rets[-1] if rets else "return", "False exactly when some class is not strongly connected, True otherwise")


def _deficiency_zero(rep):
    d0 = rep.f(DF, A + "check_deficiency_zero")
    rets = returns_of(d0.node)
    # a decision function of (deficiency, weakly reversible): tabulate it
    from ..absval import eval_function
    bad = []
    try:
        for dfc in (0, 1, 2):
            for wr in (True, False):
                got = eval_function(d0.node, {"self._summary": "<summary>", "self._summary.deficiency": dfc, "self._summary.weakly_reversible": wr})
                if bool(got) != (dfc == 0 and wr):
                    bad.append(f"deficiency={dfc}, weakly_reversible={wr} -> {got!r}")
        ok = not bad
    except Undecided:
        ok = True if (bool(rets) and norm(rets[-1].value) == "self._summary.deficiency == 0 and self._summary.weakly_reversible") else None
    rep.ob("O19.2", "SHAPE", d0, ok, rets[-1] if rets else "return", "deficiency-zero check = (deficiency == 0) and weakly reversible", {"disagreements": bad})


MUTANTS = [
    dict(name="revert F-C19 (undirected-style walk)", file=DF, expect="O19.1",
         old='            for s_node, _, data in G.in_edges(r, data=True):\n                if s_node in species_index and data.get("role") == "reactant":\n                    lhs[species_index[s_node]] += int(data.get("stoich", 1))',
         new='            for u, v, data in G.edges(r, data=True):\n                s_node = v if u == r else u\n                if s_node in species_index and data.get("role") == "reactant":\n                    lhs[species_index[s_node]] += int(data.get("stoich", 1))'),
    dict(name="products read from in-arcs", file=DF, expect="O19.1",
         old="            for _, s_node, data in G.out_edges(r, data=True):", new="            for s_node, _, data in G.in_edges(r, data=True):"),
    dict(name="wrong endpoint of the in-arc", file=DF, expect="O19.1",
         old="            for s_node, _, data in G.in_edges(r, data=True):", new="            for _, s_node, data in G.in_edges(r, data=True):"),
    dict(name="deficiency sign of rank", file=DF, expect="O19.2", old="delta = int(n_complexes - n_link - rank)", new="delta = int(n_complexes - n_link + rank)"),
    dict(name="complex arc reversed", file=DF, expect="O19.2", old="            CG.add_edge(u_idx, v_idx)", new="            CG.add_edge(v_idx, u_idx)"),
    dict(name="linkage classes from strong components", file=DF, expect="O19.2",
         old="        n_link = nx.number_connected_components(CG.to_undirected())", new="        n_link = nx.number_strongly_connected_components(CG)"),
    dict(name="coefficients ignored", file=DF, expect="O19.1",
         old='                    rhs[species_index[s_node]] += int(data.get("stoich", 1))', new='                    rhs[species_index[s_node]] += 1'),
    dict(name="complexes not de-duplicated", file=DF, expect="O19.2",
         old="            if vec in idx_map:\n                return idx_map[vec]\n", new=""),
    dict(name="weak reversibility on the whole graph", file=DF, expect="O19.2",
         old="        for comp in nx.connected_components(und):\n            sub = G.subgraph(comp)\n            if not nx.is_strongly_connected(sub):",
         new="        for comp in nx.connected_components(und):\n            sub = und.subgraph(comp)\n            if not nx.is_strongly_connected(sub.to_directed()):"),
    dict(name="per-class deficiency off by one", file=DF, expect="O19.2", old="lc_defs.append(int(n_l - 1 - s_l))", new="lc_defs.append(int(n_l - s_l))"),
    dict(name="writer flips product arcs", file=CV, expect="O19.1", old="            G.add_edge(rnode, v, **attrs)", new="            G.add_edge(v, rnode, **attrs)"),
    dict(name="lhs accumulates products", file=DF, expect="O19.2",
         old='                if s_node in species_index and data.get("role") == "product":\n                    rhs[species_index[s_node]]',
         new='                if s_node in species_index and data.get("role") == "product":\n                    lhs[species_index[s_node]]'),
    dict(name="as_bipartite returns undirected graphs as is", file=CV, expect="O19.1",
         old="            nx.MultiDiGraph,\n        ),\n    ):\n        return crn if isinstance(crn, nx.DiGraph) else nx.DiGraph(crn)", new="            nx.MultiDiGraph,\n        ),\n    ):\n        return crn"),
    dict(name="revert F-C19", revert_patch="notes/fixes/C19.patch", expect="O19.1"),
]

TWINS = [
    dict(name="walk with predecessors-style unpack names", file=DF,
         old="            for s_node, _, data in G.in_edges(r, data=True):", new="            for s_node, _r, data in G.in_edges(r, data=True):"),
    dict(name="delta with reordered terms", file=DF, old="delta = int(n_complexes - n_link - rank)", new="delta = int(-rank + n_complexes - n_link)"),
]


def netfold(rep):
    from ..rules import netfold as NF
    NF.check(rep, "O19.2", (ST, DF, "synkit/CRN/Hypergraph/conversion.py"), "rank(S) and the deficiency are wrong")
