"""Obligation bookkeeping, known-finding triage, evidence and exit protocol."""
from __future__ import annotations

import ast
import json
import os
import time
from typing import Any, Dict, List, Optional

from .core import AnalysisError, FuncInfo, Repo, norm

VERIF = os.path.dirname(os.path.dirname(os.path.abspath(__file__)))
KNOWN_FILE = os.path.join(VERIF, "known_findings.json")


def load_known() -> List[dict]:
    if not os.path.exists(KNOWN_FILE):
        return []
    with open(KNOWN_FILE) as fh:
        return json.load(fh)["findings"]


class Report:
    """Collects obligations for one property on one tree.

    ok=True   -> discharged
    ok=False  -> finding (VIOLATION unless listed as ``known`` in known_findings.json)
    ok=None   -> UNDECIDED: the rule met an idiom it does not model; the run
                 ends analysis-broken (exit 2) after all obligations are listed
    """

    def __init__(self, prop: str, tier: str, repo: Repo, quiet: bool = False,
                 write_replay: bool = True):
        self.write_replay = write_replay
        self.prop = prop
        self.tier = tier
        self.repo = repo
        self.quiet = quiet
        self.t0 = time.time()
        self.obligations: List[dict] = []
        self.notes: List[str] = []
        self.sites: Dict[str, int] = {}  # rule -> instances matched (vacuity guard)
        self.functions: set = set()
        self.extra: Dict[str, Any] = {}
        self.alias: Dict[str, str] = {}  # obligation-id renaming when one driver reuses another's obligations

    # ------------------------------------------------------------------
    def touch(self, fi: FuncInfo) -> FuncInfo:
        self.functions.add(fi.key)
        return fi

    def f(self, rel: str, qual: str) -> FuncInfo:
        return self.touch(self.repo.func(rel, qual))

    def ob(self, oid: str, rule: str, site, ok: Optional[bool], construct,
           what: str, facts: Optional[dict] = None, node: Optional[ast.AST] = None):
        if isinstance(site, FuncInfo):
            self.touch(site)
            site_key = site.key
            rel = site.rel
        else:
            site_key = str(site)
            rel = site_key.split(":")[0]
        if isinstance(construct, ast.AST):
            node = node or construct
            construct = norm(construct)
        if not isinstance(construct, str):
            construct = str(construct)
        line = getattr(node, "src_lineno", getattr(node, "lineno", None)) if node is not None else None
        oid = self.alias.get(oid, oid)
        rec = {
            "obligation": oid,
            "rule": rule,
            "site": site_key,
            "where": f"{rel}:{line}" if line else rel,
            "construct": construct,
            "status": "HOLDS" if ok else ("UNDECIDED" if ok is None else "FAILS"),
            "what": what,
        }
        if facts:
            rec["facts"] = facts
        self.obligations.append(rec)
        self.sites[rule] = self.sites.get(rule, 0) + 1
        return ok

    def run(self, fn, *args, **kw):
        """run one sub-check; an idiom it cannot handle becomes an UNDECIDED obligation instead of aborting the driver"""
        try:
            return fn(self, *args, **kw)
        except AnalysisError as exc:
            self.ob("-", "ENGINE", f"{getattr(fn, '__module__', '?').split('.')[-1]}:{fn.__name__}", None, fn.__name__, f"sub-check could not decide: {exc}")
        except (IndexError, KeyError, AttributeError, TypeError, ValueError) as exc:
            self.ob("-", "ENGINE", f"{getattr(fn, '__module__', '?').split('.')[-1]}:{fn.__name__}", None, fn.__name__,
                    f"sub-check met a code shape it does not model ({type(exc).__name__}: {exc})")
        return None

    def need(self, rule: str, found: int, expected_min: int, what: str):
        """Vacuity guard: fewer instances than confirmed by hand -> analysis-broken."""
        if found < expected_min:
            raise AnalysisError(
                f"vacuity guard [{rule}]: matched {found} instance(s) of {what}, "
                f"{expected_min} were confirmed by reading; the rule no longer sees its sites"
            )

    def note(self, text: str):
        self.notes.append(text)

    # ------------------------------------------------------------------
    def finish(self, replay_only: Optional[dict] = None) -> int:
        known = [k for k in load_known() if k["property"] == self.prop]
        out: List[str] = []
        failing = [o for o in self.obligations if o["status"] == "FAILS"]
        undecided = [o for o in self.obligations if o["status"] == "UNDECIDED"]
        violations = []
        known_hits = []
        for o in failing:
            k = _match_known(o, known)
            if k is not None and k.get("status") == "known":
                known_hits.append((o, k))
            else:
                violations.append(o)
        code = 0
        for o, k in known_hits:
            out.append(
                f"KNOWN-FINDING: property={self.prop} [{k['id']}] {o['rule']} at {o['where']} "
                f"({o['site'].split(':')[1]}): {k['what']}"
            )
        replay_dir = os.path.join(VERIF, "evidence", "replay")
        replays = []
        if violations:
            if self.write_replay:
                os.makedirs(replay_dir, exist_ok=True)
            for i, o in enumerate(violations):
                path = os.path.join(replay_dir, f"{self.prop}-{i}.json")
                if self.write_replay:
                    with open(path, "w") as fh:
                        json.dump({"property": self.prop, "root": self.repo.root, "finding": o}, fh, indent=1)
                replays.append(path)
                out.append(
                    f"  {o['rule']} {o['obligation']} FAILS at {o['where']} in {o['site'].split(':')[1]}: "
                    f"{o['what']} :: {o['construct']}"
                )
                out.append(f"VIOLATION property={self.prop} replay={path}")
            code = 1
        if undecided:
            # a positive finding stands on its own; only a run with nothing but undecided obligations is analysis-broken
            tag = "ANALYSIS-NOTE" if violations else "ANALYSIS-ERROR"
            for o in undecided:
                out.append(
                    f"{tag} property={self.prop} {o['rule']} {o['obligation']} UNDECIDED at "
                    f"{o['where']}: {o['what']} :: {o['construct']}"
                )
            if not violations:
                code = 2
        for n in self.notes:
            out.append(f"NOTE: {n}")
        discharged = sum(1 for o in self.obligations if o["status"] == "HOLDS")
        out.append(
            f"{self.prop} [{self.tier}] obligations={len(self.obligations)} discharged={discharged} "
            f"known-findings={len(known_hits)} violations={len(violations)} undecided={len(undecided)} "
            f"functions={len(self.functions)} -> "
            + {0: "HOLDS", 1: "VIOLATION", 2: "ANALYSIS-ERROR"}[code]
        )
        if not self.quiet:
            print("\n".join(out))
        self.result = {
            "code": code,
            "violations": violations,
            "known": [o for o, _ in known_hits],
            "undecided": undecided,
            "lines": out,
        }
        return code

    # ------------------------------------------------------------------
    def evidence(self, meta: dict, code: int) -> dict:
        obs = self.obligations
        distinct = {(o["rule"], o["site"], o["construct"]) for o in obs}
        samples = []
        seen_rules = set()
        for o in obs:  # one sample per rule first, then fill up
            if o["rule"] not in seen_rules:
                seen_rules.add(o["rule"])
                samples.append(o)
        for o in obs:
            if len(samples) >= 12:
                break
            if o not in samples:
                samples.append(o)
        ev = {
            "property_id": self.prop,
            "tier": self.tier,
            "seed": int(os.environ.get("VERIF_SEED", "0") or 0),
            "level": "other",
            "coverage": {
                "explanation": meta["explanation"],
                "obligations": len(obs),
                "discharged": sum(1 for o in obs if o["status"] == "HOLDS"),
                "evaluations": len(obs),
                "distinct_nontrivial": len(distinct),
                "rule": "one evaluation per (rule, site, construct) obligation derived from /repo's "
                        "current syntax trees; distinct = distinct (rule, site, construct) triples; "
                        "an obligation is non-trivial because it is only emitted when the rule matched "
                        "a real construct in the source (vacuity guards fail the run otherwise)",
                "samples": samples,
                "rules_applied": meta.get("rules", {}),
                "instances_per_rule": self.sites,
                "functions_analysed": sorted(self.functions),
                "modules_consulted": dict(sorted(self.repo.consulted.items())),
                "modules_parsed": len(self.repo.modules),
                # load-time rewrites that went beyond orientation, in the modules this check consulted (empty on the pinned tree)
                "helpers_substituted": {rel: list(getattr(self.repo.modules[rel], "inlined", []) or []) for rel in sorted(self.repo.consulted)
                                        if rel in self.repo.modules and getattr(self.repo.modules[rel], "inlined", None)},
                "options_analysed_at_default": {rel: [list(x) for x in getattr(self.repo.modules[rel], "specialised", [])] for rel in sorted(self.repo.consulted)
                                                if rel in self.repo.modules and getattr(self.repo.modules[rel], "specialised", None)},
                "not_decided": meta.get("not_decided", ""),
                "known_findings_reported": [
                    {"rule": o["rule"], "site": o["site"], "construct": o["construct"]}
                    for o in self.result.get("known", [])
                ],
                "checker_cmd": meta.get("checker_cmd", ""),
                "trusted_base": meta.get("trusted_base", []),
                "exhaustive": False,
            },
            "assumptions": meta.get("assumptions", []),
            "wall_s": round(time.time() - self.t0, 3),
            "violations": len(self.result.get("violations", [])),
        }
        ev["coverage"].update(self.extra)
        return ev


def _match_known(o: dict, known: List[dict]) -> Optional[dict]:
    for k in known:
        if k.get("rule") != o["rule"]:
            continue
        if k.get("site") != o["site"]:
            continue
        if k.get("construct") and k["construct"] != o["construct"]:
            continue
        return k
    return None
