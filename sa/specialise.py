"""Opt-in options added after the pinned tree are analysed at their default value.

A parameter of a function of the package that
  * is not in the frozen parameter inventory of the pinned tree (`sa/baseline_params.json`, tools/gen_baseline_params.py),
  * has a literal default (None / True / False / number / string / empty tuple), is never re-bound in the body, and
  * is passed by NO call anywhere in the package (neither by keyword of that name to a callee of that simple name, nor positionally),
is an option that no existing caller uses: every existing caller gets the default.  The loader substitutes the default for the parameter
inside the body (the signature is left alone); the constant folding of the normal form (N17) then removes the branches only the new
option can reach.  What the option does when a caller turns it on is NOT analysed - the properties quantify over the behaviour the pinned
API offers; DESIGN.md section 16 states this limit.  A call inside the package that passes the option disables the substitution, so a
defect that needs the option (e.g. C03-9: `_to_smarts` passing `strict=False`) is analysed in full."""
from __future__ import annotations

import ast
import copy
import json
import os
from typing import Dict, Optional, Set, Tuple

_BASE: Optional[Dict[str, Dict[str, list]]] = None


def baseline_params() -> Dict[str, Dict[str, list]]:
    global _BASE
    if _BASE is None:
        p = os.path.join(os.path.dirname(os.path.abspath(__file__)), "baseline_params.json")
        try:
            with open(p) as fh:
                _BASE = json.load(fh)
        except (OSError, ValueError):
            _BASE = {}
    return _BASE


def _literal(e, consts=None):
    """the literal expression an option defaults to (through one module-level constant), or None"""
    if isinstance(e, ast.Name) and consts and e.id in consts:
        return consts[e.id]
    return e if _is_literal(e) else None


def _is_literal(e) -> bool:
    if isinstance(e, ast.Constant):
        return True
    if isinstance(e, ast.Tuple) and all(isinstance(x, ast.Constant) for x in e.elts):
        return True
    if isinstance(e, ast.UnaryOp) and isinstance(e.op, (ast.USub, ast.UAdd)) and isinstance(e.operand, ast.Constant):
        return True
    return isinstance(e, ast.Tuple) and not e.elts


def call_usage(tree: ast.AST):
    """({(callee simple name, keyword)}, {callee simple name: max number of positional arguments},
        {(callee simple name, keyword): [(enclosing function simple name or None, ("lit", text) | ("name", id) | ("other", None))]}) over one module"""
    kws, npos, vals = set(), {}, {}

    def _dict_defs(fn):
        """locals of fn bound exactly once to a dict literal with constant string keys, or to a conditional expression of such literals"""
        cnt, out = {}, {}
        for n in ast.walk(fn):
            if isinstance(n, ast.Name) and isinstance(n.ctx, (ast.Store, ast.Del)):
                cnt[n.id] = cnt.get(n.id, 0) + 1
        for n in ast.walk(fn):
            if isinstance(n, ast.Assign) and len(n.targets) == 1 and isinstance(n.targets[0], ast.Name) and cnt.get(n.targets[0].id) == 1:
                leaves, stack, good = [], [n.value], True
                while stack:
                    e = stack.pop()
                    if isinstance(e, ast.IfExp):
                        stack += [e.body, e.orelse]
                    elif isinstance(e, ast.Dict) and all(isinstance(k, ast.Constant) and isinstance(k.value, str) for k in e.keys):
                        leaves.append(e)
                    else:
                        good = False
                if good and leaves:
                    out[n.targets[0].id] = leaves
        return out
    dict_defs = {}

    def visit(node, encl):
        for ch in ast.iter_child_nodes(node):
            e2 = encl
            if isinstance(ch, (ast.FunctionDef, ast.AsyncFunctionDef)):
                e2 = ch.name
                dict_defs[ch.name] = _dict_defs(ch)
            elif isinstance(ch, ast.ClassDef):
                e2 = encl
            if isinstance(ch, ast.Call):
                f = ch.func
                nm = f.id if isinstance(f, ast.Name) else (f.attr if isinstance(f, ast.Attribute) else None)
                if nm is not None:
                    for k in ch.keywords:
                        if k.arg:
                            kws.add((nm, k.arg))
                            v = k.value
                            if _is_literal(v):
                                d = ("lit", ast.unparse(v))
                            elif isinstance(v, ast.Name):
                                d = ("name", v.id)
                            else:
                                d = ("other", None)
                            vals.setdefault((nm, k.arg), []).append((encl, d))
                        elif isinstance(k.value, ast.Name) and k.value.id in dict_defs.get(encl, {}):
                            # f(.., **opts) with `opts = {} if .. else {"p": v}`: the keywords it can carry are visible
                            for leaf in dict_defs[encl][k.value.id]:
                                for kk, vv in zip(leaf.keys, leaf.values):
                                    kws.add((nm, kk.value))
                                    if _is_literal(vv):
                                        d = ("lit", ast.unparse(vv))
                                    elif isinstance(vv, ast.Name):
                                        d = ("name", vv.id)
                                    else:
                                        d = ("other", None)
                                    vals.setdefault((nm, kk.value), []).append((encl, d))
                        else:
                            kws.add((nm, "**"))
                    n = len(ch.args) + (100 if any(isinstance(a, ast.Starred) for a in ch.args) else 0)
                    npos[nm] = max(npos.get(nm, 0), n)
            visit(ch, e2)
    visit(tree, None)
    return kws, npos, vals


def new_params(tree: ast.AST, rel: str):
    """{(function simple name or class name for __init__, parameter): default text} of parameters that are not in the inventory and have a default"""
    base = baseline_params().get(rel)
    out = {}
    if base is None:
        return out

    def visit(body, prefix, cls):
        for st in body:
            if isinstance(st, (ast.FunctionDef, ast.AsyncFunctionDef)):
                q = prefix + st.name
                old = base.get(q)
                if old is not None:
                    a = st.args
                    pos = a.posonlyargs + a.args
                    dn = dict(zip([x.arg for x in pos[len(pos) - len(a.defaults):]], a.defaults))
                    dn.update({x.arg: d for x, d in zip(a.kwonlyargs, a.kw_defaults) if d is not None})
                    for x in pos + a.kwonlyargs:
                        if x.arg not in old and x.arg in dn:
                            out[(st.name, x.arg)] = ast.unparse(dn[x.arg])
                            if cls and st.name == "__init__":
                                out[(cls, x.arg)] = ast.unparse(dn[x.arg])
                visit(st.body, q + ".<locals>.", None)
            elif isinstance(st, ast.ClassDef):
                visit(st.body, prefix + st.name + ".", st.name)
            elif isinstance(st, (ast.If, ast.Try, ast.With)):
                for b in ("body", "orelse", "finalbody"):
                    visit(getattr(st, b, []) or [], prefix, cls)
                for h in getattr(st, "handlers", []) or []:
                    visit(h.body, prefix, cls)
    visit(tree.body, "", None)
    return out


def options_safe_to_fold(newp: Dict[Tuple[str, str], str], used_kws, kw_values) -> Set[Tuple[str, str]]:
    """the new options whose every keyword use in the package passes the default itself, or forwards a like-defaulted new option of the calling function
    that is itself safe (fixpoint): threading an opt-in option through the layers does not make it 'used'"""
    ok = {k for k, d in newp.items() if d is not None}
    changed = True
    while changed:
        changed = False
        for (f, p_) in list(ok):
            bad = (f, "**") in used_kws
            for encl, (kind, val) in kw_values.get((f, p_), []):
                if kind == "lit":
                    if val != newp[(f, p_)]:
                        bad = True
                elif kind == "name":
                    if (encl, val) not in ok or newp.get((encl, val)) != newp[(f, p_)]:
                        bad = True
                else:
                    bad = True
            if bad:
                ok.discard((f, p_))
                changed = True
    return ok


def specialise(tree: ast.Module, rel: str, used_kws, max_pos: Dict[str, int], spec_ok=None):
    """returns (tree, [(qualified function, parameter, default text)])"""
    base = baseline_params().get(rel)
    if base is None:
        return tree, []
    done = []
    consts = {}
    seen_c = {}
    for st in tree.body:
        tg = st.targets[0] if isinstance(st, ast.Assign) and len(st.targets) == 1 else (st.target if isinstance(st, ast.AnnAssign) and st.value is not None else None)
        if isinstance(tg, ast.Name):
            seen_c[tg.id] = seen_c.get(tg.id, 0) + 1
            if _is_literal(st.value):
                consts[tg.id] = st.value
    consts = {k: v for k, v in consts.items() if seen_c.get(k) == 1}

    def visit(body, prefix, cls):
        for st in body:
            if isinstance(st, (ast.FunctionDef, ast.AsyncFunctionDef)):
                q = prefix + st.name
                old = base.get(q)
                if old is not None:
                    _one(st, q, set(old), cls)
                visit(st.body, q + ".<locals>.", None)
            elif isinstance(st, ast.ClassDef):
                visit(st.body, prefix + st.name + ".", st.name)
            elif isinstance(st, (ast.If, ast.Try, ast.With)):
                for b in ("body", "orelse", "finalbody"):
                    visit(getattr(st, b, []) or [], prefix, cls)
                for h in getattr(st, "handlers", []) or []:
                    visit(h.body, prefix, cls)

    def _one(fn, q, old, cls):
        a = fn.args
        pos = a.posonlyargs + a.args
        defaults = dict(zip([x.arg for x in pos[len(pos) - len(a.defaults):]], a.defaults))
        defaults.update({x.arg: d for x, d in zip(a.kwonlyargs, a.kw_defaults) if d is not None})
        stored = {n.id for n in ast.walk(fn) if isinstance(n, ast.Name) and isinstance(n.ctx, (ast.Store, ast.Del))}
        simple = fn.name if fn.name != "__init__" or cls is None else cls
        names = {fn.name} | ({cls} if (cls and fn.name == "__init__") else set())
        n_old_pos = len([x for x in pos if x.arg in old])
        subst = {}
        for x in pos + a.kwonlyargs:
            p = x.arg
            if p in old or p in ("self", "cls") or p not in defaults or _literal(defaults[p], consts) is None or p in stored:
                continue
            if spec_ok is not None:
                if not all((nm, p) in spec_ok for nm in names):
                    continue
            elif any((nm, p) in used_kws or (nm, "**") in used_kws for nm in names):
                continue
            if x in pos:
                idx = pos.index(x) - (1 if pos and pos[0].arg in ("self", "cls") else 0)
                if any(max_pos.get(nm, 0) > idx for nm in names):
                    continue
            subst[p] = _literal(defaults[p], consts)
        if not subst:
            return
        nested_params = {y.arg for f2 in ast.walk(fn) if isinstance(f2, (ast.FunctionDef, ast.AsyncFunctionDef, ast.Lambda)) and f2 is not fn
                         for y in f2.args.posonlyargs + f2.args.args + f2.args.kwonlyargs}
        subst = {p: d for p, d in subst.items() if p not in nested_params}
        if not subst:
            return

        class S(ast.NodeTransformer):
            def visit_Name(self, n):
                if isinstance(n.ctx, ast.Load) and n.id in subst:
                    return ast.copy_location(copy.deepcopy(subst[n.id]), n)
                return n
        fn.body = [S().visit(s) for s in fn.body]
        for p, d in subst.items():
            done.append((q, p, ast.unparse(d)))

    visit(tree.body, "", None)
    return tree, done


# ---------------------------------------------------------------------------------------------------------------------------------------
# named constants introduced after the pinned tree ("magic value -> _NAME") read as the literal they name
# ---------------------------------------------------------------------------------------------------------------------------------------
_BASEC = None


def baseline_constants():
    global _BASEC
    if _BASEC is None:
        p = os.path.join(os.path.dirname(os.path.abspath(__file__)), "baseline_constants.json")
        try:
            with open(p) as fh:
                _BASEC = {k: set(v) for k, v in json.load(fh).items()}
        except (OSError, ValueError):
            _BASEC = {}
    return _BASEC


def _plain_literal(e) -> bool:
    if isinstance(e, ast.Constant) and (e.value is None or isinstance(e.value, (str, int, float, bool))):
        return True
    if isinstance(e, ast.UnaryOp) and isinstance(e.op, (ast.USub, ast.UAdd)) and isinstance(e.operand, ast.Constant) and isinstance(e.operand.value, (int, float)):
        return True
    if isinstance(e, ast.BinOp) and isinstance(e.op, (ast.Mult, ast.Pow, ast.Add, ast.Sub)) and isinstance(e.left, ast.Constant) and isinstance(e.right, ast.Constant) \
            and isinstance(e.left.value, (str, int, float)) and isinstance(e.right.value, (str, int, float)):
        return True     # "{" * 1000, 10 ** 8: a literal spelled as arithmetic on literals
    if isinstance(e, (ast.Tuple, ast.List)):
        return all(_plain_literal(x) for x in e.elts)
    if isinstance(e, ast.Dict):
        return all(k is not None and _plain_literal(k) and _plain_literal(v) for k, v in zip(e.keys, e.values))
    return False


def new_module_constants(tree: ast.Module, rel: str):
    """{NAME: source text of its literal} for the module-level constants `inline_new_constants` would read as literals (used for the
    modules that import them)"""
    base = baseline_constants().get(rel)
    if base is None:
        return {}
    stores = {}
    for n in ast.walk(tree):
        if isinstance(n, ast.Name) and isinstance(n.ctx, (ast.Store, ast.Del)):
            stores[n.id] = stores.get(n.id, 0) + 1
        elif isinstance(n, (ast.Global, ast.Nonlocal)):
            for x in n.names:
                stores[x] = stores.get(x, 0) + 2
        elif isinstance(n, ast.arg):
            stores[n.arg] = stores.get(n.arg, 0) + 1
    out = {}
    for st in tree.body:
        tg = st.targets[0] if isinstance(st, ast.Assign) and len(st.targets) == 1 else (st.target if isinstance(st, ast.AnnAssign) and st.value is not None else None)
        if isinstance(tg, ast.Name) and _plain_literal(st.value) and not isinstance(st.value, (ast.List, ast.Dict)) and tg.id not in base and stores.get(tg.id) == 1 and tg.id.upper() == tg.id \
                and any(c.isalpha() for c in tg.id):
            out[tg.id] = ast.unparse(st.value)
    return out


def inline_new_constants(tree: ast.Module, rel: str, foreign=None):
    """A module-level `NAME = <literal>` / class-level `NAME = <literal>` that is not in the name inventory of the pinned tree, is bound exactly once and is
    never the target of a store / `global` elsewhere reads as the literal at every use (`NAME`, `self.NAME`, `cls.NAME`, `Class.NAME`).  `foreign` maps the
    local names under which this module imports such constants of other modules to their literal text.  Returns (tree, [names])."""
    base = baseline_constants().get(rel)
    if base is None:
        return tree, []
    done = []
    stores = {}
    for n in ast.walk(tree):
        if isinstance(n, ast.Name) and isinstance(n.ctx, (ast.Store, ast.Del)):
            stores[n.id] = stores.get(n.id, 0) + 1
        elif isinstance(n, (ast.Global, ast.Nonlocal)):
            for x in n.names:
                stores[x] = stores.get(x, 0) + 2
        elif isinstance(n, ast.arg):
            stores[n.arg] = stores.get(n.arg, 0) + 1
        elif isinstance(n, ast.Attribute) and isinstance(n.ctx, (ast.Store, ast.Del)):
            stores["." + n.attr] = stores.get("." + n.attr, 0) + 1
    mod_consts, cls_consts = {}, {}

    def one(st):
        tg = st.targets[0] if isinstance(st, ast.Assign) and len(st.targets) == 1 else (st.target if isinstance(st, ast.AnnAssign) and st.value is not None else None)
        # immutable literals only: a list / dict display bound to a name is one shared object, not a value
        return (tg.id, st.value) if isinstance(tg, ast.Name) and _plain_literal(st.value) and not isinstance(st.value, (ast.List, ast.Dict)) else (None, None)
    for st in tree.body:
        nm, v = one(st)
        if nm and nm not in base and stores.get(nm) == 1 and nm.upper() == nm and any(c.isalpha() for c in nm):
            mod_consts[nm] = v
        if isinstance(st, ast.ClassDef):
            for b in st.body:
                nm, v = one(b)
                if nm and f"{st.name}.{nm}" not in base and stores.get(nm) == 1 and not stores.get("." + nm) and nm.upper() == nm and any(c.isalpha() for c in nm):
                    cls_consts.setdefault(st.name, {})[nm] = v
    # a new constant of another module, imported here by name (and never rebound here)
    for local, text in (foreign or {}).items():
        if not stores.get(local) and local not in mod_consts:
            try:
                mod_consts[local] = ast.parse(text, mode="eval").body
            except SyntaxError:
                pass
    if not mod_consts and not cls_consts:
        return tree, []
    all_cls = {nm: v for d in cls_consts.values() for nm, v in d.items()}
    dup = {nm for nm in all_cls if sum(1 for d in cls_consts.values() if nm in d) > 1}

    class S(ast.NodeTransformer):
        def visit_Name(self, n):
            if isinstance(n.ctx, ast.Load) and n.id in mod_consts:
                return ast.copy_location(copy.deepcopy(mod_consts[n.id]), n)
            return n

        def visit_Attribute(self, n):
            self.generic_visit(n)
            if isinstance(n.ctx, ast.Load) and isinstance(n.value, ast.Name) and n.attr in all_cls and n.attr not in dup \
                    and (n.value.id in ("self", "cls") or n.value.id in cls_consts and n.attr in cls_consts[n.value.id]):
                return ast.copy_location(copy.deepcopy(all_cls[n.attr]), n)
            return n
    # do not rewrite the defining statements' targets (Store ctx is skipped above); values of other constants may use constants: two passes
    tree = S().visit(tree)
    tree = S().visit(tree)
    done = sorted(mod_consts) + sorted(f"{c}.{n}" for c, d in cls_consts.items() for n in d)
    return tree, done
