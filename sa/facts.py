"""Small fact extractors used by the property drivers."""
from __future__ import annotations

import ast
from typing import Dict, List, Optional, Sequence, Tuple

from .core import (Def, FuncInfo, call_name, const, dotted, local_defs, norm,
                   origin, parent_map, walk_local)


def recv_calls(fn: ast.AST, recv: Optional[str], meth: str, into_nested: bool = True) -> List[ast.Call]:
    """Calls ``recv.meth(...)`` (recv=None: any receiver)."""
    out = []
    for n in walk_local(fn, into_nested):
        if isinstance(n, ast.Call) and isinstance(n.func, ast.Attribute) and n.func.attr == meth:
            if recv is None or dotted(n.func.value) == recv:
                out.append(n)
    out.sort(key=lambda c: (c.lineno, c.col_offset))
    return out


def unpack_of(defs: Dict[str, List[Def]], name: str) -> Optional[Tuple[ast.AST, Tuple[int, ...]]]:
    """(value, index path) when ``name`` is bound exactly once by tuple unpacking."""
    ds = defs.get(name, [])
    if len(ds) == 1 and ds[0].index is not None and ds[0].kind in ("unpack", "for", "comp", "with"):
        return ds[0].value, ds[0].index
    return None


def guards_of(pm: Dict[ast.AST, ast.AST], node: ast.AST, stop: ast.AST, early: bool = True) -> List[Tuple[ast.AST, bool]]:
    """Enclosing ``if``/``while``/conditional-expression tests with the branch
    sense under which ``node`` executes, innermost first, up to ``stop``.

    ``early=True`` adds the guard clauses that precede the statement in its own blocks: an earlier sibling
    ``if C: continue | break | return | raise`` (no else) means the statement runs only when C is false."""
    out = []
    child = node
    cur = pm.get(node)
    while cur is not None:
        if early:
            for f in ("body", "orelse", "finalbody"):
                lst = getattr(cur, f, None)
                if isinstance(lst, list) and any(x is child for x in lst):
                    for sib in lst:
                        if sib is child:
                            break
                        if isinstance(sib, ast.If) and not sib.orelse and sib.body and isinstance(sib.body[-1], (ast.Continue, ast.Break, ast.Return, ast.Raise)):
                            out.append((sib.test, False))
        if cur is stop:
            break
        if isinstance(cur, (ast.If, ast.While)):
            if _in_list(cur.body, child):
                out.append((cur.test, True))
            elif _in_list(cur.orelse, child):
                out.append((cur.test, False))
        elif isinstance(cur, ast.IfExp):
            if child is cur.body:
                out.append((cur.test, True))
            elif child is cur.orelse:
                out.append((cur.test, False))
        child = cur
        cur = pm.get(cur)
    # `not X` under sense s is X under sense (not s): one spelling only
    norm_out = []
    for t, s_ in out:
        while isinstance(t, ast.UnaryOp) and isinstance(t.op, ast.Not):
            t, s_ = t.operand, not s_
        # a failed == / in / is test is a passed != / not in / is not test: one spelling, positive sense
        if not s_ and isinstance(t, ast.Compare) and len(t.ops) == 1 and type(t.ops[0]) in _NEGATED:
            t = ast.copy_location(ast.Compare(left=t.left, ops=[_NEGATED[type(t.ops[0])]()], comparators=t.comparators), t)
            s_ = True
        norm_out.append((t, s_))
    return norm_out


_NEGATED = {ast.Eq: ast.NotEq, ast.NotEq: ast.Eq, ast.In: ast.NotIn, ast.NotIn: ast.In, ast.Is: ast.IsNot, ast.IsNot: ast.Is}


def _in_list(lst: Sequence[ast.AST], node: ast.AST) -> bool:
    return any(x is node for x in lst)


def enclosing_loops(pm, node, stop) -> List[ast.AST]:
    out = []
    cur = pm.get(node)
    while cur is not None and cur is not stop:
        if isinstance(cur, (ast.For, ast.While, ast.AsyncFor)):
            out.append(cur)
        cur = pm.get(cur)
    return out


def mentions(expr: ast.AST, names: Sequence[str]) -> set:
    return {n.id for n in ast.walk(expr) if isinstance(n, ast.Name) and n.id in names}


def list_literal_strs(node: ast.AST) -> Optional[List[str]]:
    if isinstance(node, (ast.List, ast.Tuple)) and all(
        isinstance(e, ast.Constant) and isinstance(e.value, str) for e in node.elts
    ):
        return [e.value for e in node.elts]
    return None


def default_of(fi: FuncInfo, param: str) -> Optional[ast.AST]:
    a = fi.node.args
    pos = a.posonlyargs + a.args
    for p, d in zip(reversed(pos), reversed(a.defaults)):
        if p.arg == param:
            return d
    for p, d in zip(a.kwonlyargs, a.kw_defaults):
        if p.arg == param:
            return d
    return None


def returns_of(fn: ast.AST) -> List[ast.Return]:
    return sorted((n for n in walk_local(fn) if isinstance(n, ast.Return)), key=lambda n: n.lineno)


def subscript_chain(node: ast.AST):
    """``a[i][j]`` -> (base, [i, j]) with constant indices where possible."""
    idx = []
    while isinstance(node, ast.Subscript):
        idx.append(node.slice)
        node = node.value
    return node, list(reversed(idx))


def assigned_subscripts(fn: ast.AST, into_nested=False):
    """(target Subscript, value, stmt) for every ``x[...] = v`` / ``x[...] op= v``."""
    out = []
    for n in walk_local(fn, into_nested):
        if isinstance(n, ast.Assign):
            for t in n.targets:
                if isinstance(t, ast.Subscript):
                    out.append((t, n.value, n))
        elif isinstance(n, ast.AugAssign) and isinstance(n.target, ast.Subscript):
            out.append((n.target, n.value, n))
        elif isinstance(n, ast.AnnAssign) and isinstance(n.target, ast.Subscript) and n.value is not None:
            out.append((n.target, n.value, n))
    out.sort(key=lambda t: t[2].lineno)
    return out


def conjuncts(test: ast.AST) -> List[str]:
    """sorted normalised conjuncts of an `and` chain (a single test is its own conjunct)"""
    vals = test.values if isinstance(test, ast.BoolOp) and isinstance(test.op, ast.And) else [test]
    out = []
    for v in vals:
        if isinstance(v, ast.BoolOp) and isinstance(v.op, ast.And):
            out += conjuncts(v)
        else:
            out.append(norm(v).replace(" ", ""))
    return sorted(out)


def conjunct_nodes(test: ast.AST) -> List[ast.AST]:
    """the conjunct expressions of an `and` chain as nodes (a single test is its own conjunct)"""
    vals = test.values if isinstance(test, ast.BoolOp) and isinstance(test.op, ast.And) else [test]
    out: List[ast.AST] = []
    for v in vals:
        out += conjunct_nodes(v) if isinstance(v, ast.BoolOp) and isinstance(v.op, ast.And) else [v]
    return out


def if_leaves(e: ast.AST) -> List[ast.AST]:
    """the alternatives of a (nested) conditional expression: `a if c else (b if d else e)` -> [a, b, e]; any other expression -> [itself]"""
    if isinstance(e, ast.IfExp):
        return if_leaves(e.body) + if_leaves(e.orelse)
    return [e]


def if_cases(e: ast.AST, conds=()) -> List[Tuple[Tuple[Tuple[ast.AST, bool], ...], ast.AST]]:
    """[(conditions, leaf)] for a (nested) conditional expression; conditions are (test, sense) pairs"""
    if isinstance(e, ast.IfExp):
        return if_cases(e.body, conds + ((e.test, True),)) + if_cases(e.orelse, conds + ((e.test, False),))
    return [(tuple(conds), e)]


def final_return_expr(fn: ast.AST) -> Optional[ast.AST]:
    """the value a function returns at its end, as ONE expression: `return E`  or  `if C: return A` directly followed by `return B`
    (read as `A if C else B`).  None if the function does not end that way."""
    body = [st for st in fn.body if not isinstance(st, ast.Pass)]
    if not body or not isinstance(body[-1], ast.Return) or body[-1].value is None:
        return None
    expr = body[-1].value
    i = len(body) - 2
    while i >= 0 and isinstance(body[i], ast.If) and not body[i].orelse and len(body[i].body) == 1 and isinstance(body[i].body[0], ast.Return) \
            and body[i].body[0].value is not None:
        expr = ast.copy_location(ast.IfExp(test=body[i].test, body=body[i].body[0].value, orelse=expr), body[i])
        i -= 1
    return expr
