"""Small fact extractors used by the property drivers."""
from __future__ import annotations

import ast
from typing import Dict, List, Optional, Sequence, Tuple

from .core import (Def, FuncInfo, call_name, const, dotted, local_defs, norm,
                   origin, parent_map, walk_local)


def recv_calls(fn: ast.AST, recv: Optional[str], meth: str, into_nested: bool = True) -> List[ast.Call]:
    """Calls ``recv.meth(...)`` (recv=None: any receiver)."""
    out = []
    for n in walk_local(fn, into_nested):
        if isinstance(n, ast.Call) and isinstance(n.func, ast.Attribute) and n.func.attr == meth:
            if recv is None or dotted(n.func.value) == recv:
                out.append(n)
    out.sort(key=lambda c: (c.lineno, c.col_offset))
    return out


def unpack_of(defs: Dict[str, List[Def]], name: str) -> Optional[Tuple[ast.AST, Tuple[int, ...]]]:
    """(value, index path) when ``name`` is bound exactly once by tuple unpacking."""
    ds = defs.get(name, [])
    if len(ds) == 1 and ds[0].index is not None and ds[0].kind in ("unpack", "for", "comp", "with"):
        return ds[0].value, ds[0].index
    return None


def guards_of(pm: Dict[ast.AST, ast.AST], node: ast.AST, stop: ast.AST, early: bool = True) -> List[Tuple[ast.AST, bool]]:
    """Enclosing ``if``/``while``/conditional-expression tests with the branch
    sense under which ``node`` executes, innermost first, up to ``stop``.

    ``early=True`` adds the guard clauses that precede the statement in its own blocks: an earlier sibling
    ``if C: continue | break | return | raise`` (no else) means the statement runs only when C is false."""
    out = []
    child = node
    cur = pm.get(node)
    while cur is not None:
        if early:
            for f in ("body", "orelse", "finalbody"):
                lst = getattr(cur, f, None)
                if isinstance(lst, list) and any(x is child for x in lst):
                    for sib in lst:
                        if sib is child:
                            break
                        if isinstance(sib, ast.If) and not sib.orelse and sib.body and isinstance(sib.body[-1], (ast.Continue, ast.Break, ast.Return, ast.Raise)):
                            out.append((sib.test, False))
        if cur is stop:
            break
        if isinstance(cur, (ast.If, ast.While)):
            if _in_list(cur.body, child):
                out.append((cur.test, True))
            elif _in_list(cur.orelse, child):
                out.append((cur.test, False))
        elif isinstance(cur, ast.IfExp):
            if child is cur.body:
                out.append((cur.test, True))
            elif child is cur.orelse:
                out.append((cur.test, False))
        child = cur
        cur = pm.get(cur)
    # `not X` under sense s is X under sense (not s): one spelling only
    norm_out = []
    for t, s_ in out:
        while isinstance(t, ast.UnaryOp) and isinstance(t.op, ast.Not):
            t, s_ = t.operand, not s_
        # a failed == / in / is test is a passed != / not in / is not test: one spelling, positive sense
        if not s_ and isinstance(t, ast.Compare) and len(t.ops) == 1 and type(t.ops[0]) in _NEGATED:
            t = ast.copy_location(ast.Compare(left=t.left, ops=[_NEGATED[type(t.ops[0])]()], comparators=t.comparators), t)
            s_ = True
        norm_out.append((t, s_))
    return norm_out


_NEGATED = {ast.Eq: ast.NotEq, ast.NotEq: ast.Eq, ast.In: ast.NotIn, ast.NotIn: ast.In, ast.Is: ast.IsNot, ast.IsNot: ast.Is}


def _in_list(lst: Sequence[ast.AST], node: ast.AST) -> bool:
    return any(x is node for x in lst)


def enclosing_loops(pm, node, stop) -> List[ast.AST]:
    out = []
    cur = pm.get(node)
    while cur is not None and cur is not stop:
        if isinstance(cur, (ast.For, ast.While, ast.AsyncFor)):
            out.append(cur)
        cur = pm.get(cur)
    return out


class Iteration:
    """one enclosing iteration of a node: a `for` statement or a comprehension generator"""
    def __init__(self, target, iter_, conds, holder):
        self.target, self.iter, self.conds, self.holder = target, iter_, conds, holder

    def item(self, k: int) -> str:
        """text that denotes component k of the iterated item (`edge[0]` for `for edge in ...`, `u` for `for u, v, d in ...`)"""
        if isinstance(self.target, (ast.Tuple, ast.List)):
            return norm(self.target.elts[k]) if k < len(self.target.elts) else f"<item>[{k}]"
        return f"{norm(self.target)}[{k}]"


def iterations(pm, node, stop) -> List[Iteration]:
    """enclosing iterations of `node`, innermost first; `for` statements and comprehension generators alike.
    `conds` holds the comprehension's own `if` filters (statement-level guards are reported by guards_of)."""
    out = []
    pprev, prev, cur = None, node, pm.get(node)
    while cur is not None and prev is not stop:
        if isinstance(cur, (ast.For, ast.AsyncFor)) and prev is not cur.iter and prev is not cur.target:
            out.append(Iteration(cur.target, cur.iter, [], cur))
        elif isinstance(cur, (ast.ListComp, ast.SetComp, ast.GeneratorExp, ast.DictComp)):
            gens = cur.generators
            if prev in gens:
                k = gens.index(prev)  # node sits in the iter (earlier generators enclose it) or the ifs (this one does as well)
                gens = gens[:k] if pprev is prev.iter else gens[:k + 1]
            for g in reversed(gens):
                out.append(Iteration(g.target, g.iter, list(g.ifs), cur))
        pprev, prev, cur = prev, cur, pm.get(cur)
    return out


def mentions(expr: ast.AST, names: Sequence[str]) -> set:
    return {n.id for n in ast.walk(expr) if isinstance(n, ast.Name) and n.id in names}


def list_literal_strs(node: ast.AST) -> Optional[List[str]]:
    if isinstance(node, (ast.List, ast.Tuple)) and all(
        isinstance(e, ast.Constant) and isinstance(e.value, str) for e in node.elts
    ):
        return [e.value for e in node.elts]
    return None


def default_of(fi: FuncInfo, param: str) -> Optional[ast.AST]:
    a = fi.node.args
    pos = a.posonlyargs + a.args
    for p, d in zip(reversed(pos), reversed(a.defaults)):
        if p.arg == param:
            return d
    for p, d in zip(a.kwonlyargs, a.kw_defaults):
        if p.arg == param:
            return d
    return None


def returns_of(fn: ast.AST) -> List[ast.Return]:
    return sorted((n for n in walk_local(fn) if isinstance(n, ast.Return)), key=lambda n: n.lineno)


def subscript_chain(node: ast.AST):
    """``a[i][j]`` -> (base, [i, j]) with constant indices where possible."""
    idx = []
    while isinstance(node, ast.Subscript):
        idx.append(node.slice)
        node = node.value
    return node, list(reversed(idx))


def assigned_subscripts(fn: ast.AST, into_nested=False):
    """(target Subscript, value, stmt) for every ``x[...] = v`` / ``x[...] op= v``."""
    out = []
    for n in walk_local(fn, into_nested):
        if isinstance(n, ast.Assign):
            for t in n.targets:
                if isinstance(t, ast.Subscript):
                    out.append((t, n.value, n))
        elif isinstance(n, ast.AugAssign) and isinstance(n.target, ast.Subscript):
            out.append((n.target, n.value, n))
        elif isinstance(n, ast.AnnAssign) and isinstance(n.target, ast.Subscript) and n.value is not None:
            out.append((n.target, n.value, n))
    out.sort(key=lambda t: t[2].lineno)
    return out


def conjuncts(test: ast.AST) -> List[str]:
    """sorted normalised conjuncts of an `and` chain (a single test is its own conjunct)"""
    vals = test.values if isinstance(test, ast.BoolOp) and isinstance(test.op, ast.And) else [test]
    out = []
    for v in vals:
        if isinstance(v, ast.BoolOp) and isinstance(v.op, ast.And):
            out += conjuncts(v)
        else:
            out.append(norm(v).replace(" ", ""))
    return sorted(out)


def conjunct_nodes(test: ast.AST) -> List[ast.AST]:
    """the conjunct expressions of an `and` chain as nodes (a single test is its own conjunct)"""
    vals = test.values if isinstance(test, ast.BoolOp) and isinstance(test.op, ast.And) else [test]
    out: List[ast.AST] = []
    for v in vals:
        out += conjunct_nodes(v) if isinstance(v, ast.BoolOp) and isinstance(v.op, ast.And) else [v]
    return out


def if_leaves(e: ast.AST) -> List[ast.AST]:
    """the alternatives of a (nested) conditional expression: `a if c else (b if d else e)` -> [a, b, e]; any other expression -> [itself]"""
    if isinstance(e, ast.IfExp):
        return if_leaves(e.body) + if_leaves(e.orelse)
    return [e]


def if_cases(e: ast.AST, conds=()) -> List[Tuple[Tuple[Tuple[ast.AST, bool], ...], ast.AST]]:
    """[(conditions, leaf)] for a (nested) conditional expression; conditions are (test, sense) pairs"""
    if isinstance(e, ast.IfExp):
        return if_cases(e.body, conds + ((e.test, True),)) + if_cases(e.orelse, conds + ((e.test, False),))
    return [(tuple(conds), e)]


def final_return_expr(fn: ast.AST) -> Optional[ast.AST]:
    """the value a function returns at its end, as ONE expression: `return E`  or  `if C: return A` directly followed by `return B`
    (read as `A if C else B`).  None if the function does not end that way."""
    body = [st for st in fn.body if not isinstance(st, ast.Pass)]
    if not body or not isinstance(body[-1], ast.Return) or body[-1].value is None:
        return None
    expr = body[-1].value
    i = len(body) - 2
    while i >= 0 and isinstance(body[i], ast.If) and not body[i].orelse and len(body[i].body) == 1 and isinstance(body[i].body[0], ast.Return) \
            and body[i].body[0].value is not None:
        expr = ast.copy_location(ast.IfExp(test=body[i].test, body=body[i].body[0].value, orelse=expr), body[i])
        i -= 1
    return expr


# --------------------------------------------------------------------------
# node-data aliases:  `x = G.nodes[n]`  and the data component of `for n, d in G.nodes(data=True)`
# --------------------------------------------------------------------------
class _Rename(ast.NodeTransformer):
    def __init__(self, name, repl):
        self.name, self.repl = name, repl

    def visit_Name(self, n):
        if n.id == self.name and isinstance(n.ctx, ast.Load):
            import copy as _copy
            return ast.copy_location(_copy.deepcopy(self.repl), n)
        return n


def expand_node_data(fn: ast.AST) -> ast.AST:
    """copy of `fn` in which a reference to a node's attribute dict is always spelt `G.nodes[n]`:
      * a local bound once by `x = G.nodes[n]` (G, n plain names; G bound once, n a loop variable or parameter) is replaced by that expression,
      * inside `for n, d in G.nodes(data=True)` (statement or comprehension) `d` is replaced by `G.nodes[n]` unless the body re-binds d or n.
    networkx hands out the same dict object on every access, so the spellings denote the same object."""
    import copy as _copy
    fn = _copy.deepcopy(fn)
    defs = local_defs(fn)

    def stable(name):
        ds = defs.get(name, [])
        return bool(ds) and (len(ds) == 1 or all(d.kind in ("for", "param", "comp") for d in ds))

    # (1) assignment aliases: one transformer pass per alias over everything except the defining statement
    for name, ds in list(local_defs(fn).items()):
        if len(ds) != 1 or ds[0].kind != "assign" or ds[0].index:
            continue
        v = ds[0].value
        if isinstance(v, ast.Subscript) and isinstance(v.value, ast.Attribute) and v.value.attr == "nodes" and isinstance(v.value.value, ast.Name) \
                and isinstance(v.slice, ast.Name) and stable(v.value.value.id) and stable(v.slice.id):
            _replace_everywhere(fn, name, v, skip=ds[0].stmt)
    # (2) data component of nodes(data=True) iterations
    for node in ast.walk(fn):
        tgt = it = None
        if isinstance(node, (ast.For, ast.comprehension)):
            tgt, it = node.target, node.iter
        if not (isinstance(tgt, ast.Tuple) and len(tgt.elts) == 2 and all(isinstance(e, ast.Name) for e in tgt.elts)):
            continue
        if not (isinstance(it, ast.Call) and isinstance(it.func, ast.Attribute) and it.func.attr == "nodes" and isinstance(it.func.value, ast.Name)
                and not it.args and len(it.keywords) == 1 and it.keywords[0].arg == "data" and is_const_true(it.keywords[0].value)):
            continue
        n_, d_ = tgt.elts[0].id, tgt.elts[1].id
        repl = ast.Subscript(value=ast.Attribute(value=ast.Name(id=it.func.value.id, ctx=ast.Load()), attr="nodes", ctx=ast.Load()),
                             slice=ast.Name(id=n_, ctx=ast.Load()), ctx=ast.Load())
        if isinstance(node, ast.For):
            scope = node.body
            rebinds = any(isinstance(x, ast.Name) and isinstance(x.ctx, ast.Store) and x.id in (n_, d_) for s in scope for x in ast.walk(s))
            if rebinds:
                continue
            tr = _Rename(d_, repl)
            node.body = [tr.visit(s) for s in scope]
        else:
            tr = _Rename(d_, repl)
            node.ifs = [tr.visit(c) for c in node.ifs]
            node._data_alias = (d_, repl)  # the element expression is handled by the owner below
    for node in ast.walk(fn):
        if isinstance(node, (ast.ListComp, ast.SetComp, ast.GeneratorExp, ast.DictComp)):
            for g in node.generators:
                al = getattr(g, "_data_alias", None)
                if al:
                    tr = _Rename(*al)
                    if isinstance(node, ast.DictComp):
                        node.key, node.value = tr.visit(node.key), tr.visit(node.value)
                    else:
                        node.elt = tr.visit(node.elt)
    ast.fix_missing_locations(fn)
    return fn


def is_const_true(n) -> bool:
    return isinstance(n, ast.Constant) and n.value is True


def _replace_everywhere(fn, name, repl, skip):
    tr = _Rename(name, repl)

    class T(ast.NodeTransformer):
        def visit(self, node):
            if node is skip:
                return node
            if isinstance(node, ast.Name):
                return tr.visit_Name(node)
            return self.generic_visit(node)
    T().visit(fn)


def guard_atoms(guards) -> List[Tuple[ast.AST, bool]]:
    """the atomic facts a guard list establishes: a passed `a and b` gives (a, True), (b, True); a failed `a or b` gives (a, False), (b, False);
    `not x` flips the sense.  (A failed `and` / passed `or` stays one compound fact.)"""
    out = []

    def add(t, s):
        while isinstance(t, ast.UnaryOp) and isinstance(t.op, ast.Not):
            t, s = t.operand, not s
        if isinstance(t, ast.BoolOp) and ((isinstance(t.op, ast.And) and s) or (isinstance(t.op, ast.Or) and not s)):
            for v in t.values:
                add(v, s)
        else:
            out.append((t, s))
    for t, s in guards:
        add(t, s)
    return out


def param_default(fn: ast.AST, p: str) -> Optional[ast.AST]:
    """the value a parameter falls back to when it is None: `if p is None: p = V` (normal form N8c: `p = V if p is None else p`)"""
    from .pattern import pmatch
    for st in walk_local(fn):
        if isinstance(st, ast.Assign) and len(st.targets) == 1 and isinstance(st.targets[0], ast.Name) and st.targets[0].id == p \
                and pmatch(f"$$v if {p} is None else {p}", st.value) is not None:
            v = st.value
            return v.body if norm(v.orelse) == p else v.orelse
    return None


def helper_by_role(mi, user: FuncInfo, has_role) -> List[FuncInfo]:
    """functions of module `mi` that play a role for `user` (a nested function of it, a function it calls by name, or a helper extracted
    after the pinned tree whose body was substituted at its call sites) and satisfy `has_role(FuncInfo)`; the rule names the role by what
    the function contains, not by its qualified name"""
    out = []
    called = {call_name(c) for c in walk_local(user.node, into_nested=True) if isinstance(c, ast.Call)}
    for q, fi in mi.funcs.items():
        if fi.node is user.node:
            continue
        nm = fi.node.name
        related = q.startswith(user.qual + ".<locals>.") or nm in called or any(x.split(" ")[0] == nm for x in mi.inlined)
        if related and has_role(fi):
            out.append(fi)
    return out


def concat_parts(e):
    """the pieces of a text built by `a + b + c` or by an f-string `f"{a}lit{c}"`, left to right: [expr | ast.Constant(str)], adjacent literals merged.
    None when `e` is neither (or an f-string piece carries a conversion / format spec)."""
    def flat(x):
        if isinstance(x, ast.BinOp) and isinstance(x.op, ast.Add):
            l_, r_ = flat(x.left), flat(x.right)
            return None if l_ is None or r_ is None else l_ + r_
        if isinstance(x, ast.JoinedStr):
            out = []
            for v in x.values:
                if isinstance(v, ast.Constant):
                    out.append(v)
                elif isinstance(v, ast.FormattedValue) and v.format_spec is None and v.conversion in (-1, 115):
                    out.append(v.value)
                else:
                    return None
            return out
        return [x]
    if not (isinstance(e, ast.JoinedStr) or isinstance(e, ast.BinOp) and isinstance(e.op, ast.Add)):
        return None
    parts = flat(e)
    if parts is None:
        return None
    out = []
    for q in parts:
        if isinstance(q, ast.Constant) and isinstance(q.value, str):
            if q.value == "":
                continue
            if out and isinstance(out[-1], ast.Constant) and isinstance(out[-1].value, str):
                out[-1] = ast.copy_location(ast.Constant(value=out[-1].value + q.value), out[-1])
                continue
        out.append(q)
    return out
