"""CLI:  python -m sa.check <id> --tier quick|thorough [--root /repo]
         python -m sa.check --replay <file>

exit 0  every obligation of the property holds on the analysed tree
        (KNOWN-FINDING lines are printed for recorded, unrepaired defects)
exit 1  a line ``VIOLATION property=<id> replay=<path>`` was printed
exit 2  ANALYSIS-ERROR: the analyser could not decide (never a pass)
"""
from __future__ import annotations

import argparse
import importlib
import json
import os
import sys
import time
import traceback

from .core import AnalysisError, Repo
from .report import VERIF, Report

ALL = ["C01", "C02", "C03", "C05", "C06", "C07", "C08", "C10", "C11", "C12",
       "C13", "C14", "C15", "C16", "C17", "C18", "C19", "C20"]


def _generic_rules(rep):
    """rules that hold for every function a driver looked at (the functions named in the evidence), whatever the property"""
    from .rules.argorder import swapped_positional, misbound_positional
    from .core import alpha
    n = int(rep.prop[1:])
    fis = []
    for key in sorted(rep.functions):
        rel, qual = key.split(":", 1)
        fi = rep.repo.maybe_func(rel, qual)
        if fi is not None:
            fis.append(fi)
    bad = []
    for fi in fis:
        for c, why in swapped_positional(fi):
            # one-letter end-point names (u, v / a, b / i, j) are swapped on purpose when an arc is read in the other direction
            pair = why.split("(`", 1)[1].split("`)", 1)[0].split("`, `") if "(`" in why else ["", ""]
            if any(len(x.split(".")[-1].lstrip("_")) > 1 for x in pair):
                bad.append((fi, c, why))
    seen_calls = {id(c) for _, c, _ in bad}
    for fi in fis:
        for c, why in misbound_positional(fi):
            if id(c) not in seen_calls:
                seen_calls.add(id(c))
                bad.append((fi, c, why))
    # parameter rules: every function of the modules this check consulted (zero sites package-wide on the pinned tree)
    from .rules.params import mutated_mutable_defaults, accepted_not_threaded
    for rel in sorted(rep.repo.consulted):
        mi = rep.repo.modules.get(rel)
        for fi2 in (mi.funcs.values() if mi is not None else []):
            for node, why in mutated_mutable_defaults(fi2):
                rep.ob(f"O{n}.0", "PARAM", fi2, False, alpha(node, fi2.node)[:90], "no call changes what a later call computes: " + why, node=node)
            for node, why in accepted_not_threaded(fi2):
                rep.ob(f"O{n}.0", "PARAM", fi2, False, alpha(node, fi2.node)[:90], "an accepted option reaches the layer that implements it: " + why, node=node)
    from .rules.wl_identity import wl_equality_as_identity
    wl_bad = [(fi, node, why) for fi in fis for node, why in wl_equality_as_identity(fi)]
    for fi, node, why in wl_bad:
        rep.ob(f"O{n}.0", "WL", fi, False, alpha(node, fi.node)[:90], "equal Weisfeiler-Lehman hashes do not make two graphs the same result: " + why, node=node)
    if bad:
        for fi, c, why in bad:
            rep.ob(f"O{n}.0", "ARG", fi, False, alpha(c, fi.node)[:90], "like-named values are passed to the like-named parameters: " + why, node=c)
    else:
        rep.ob(f"O{n}.0", "ARG", f"{rep.prop}:<analysed functions>", True, f"{len(fis)} functions", "no call inside the analysed functions passes a value named like one parameter of the callee to another parameter (mutual swap or shifted position)")


def analyse(prop: str, root: str, tier: str, quiet: bool = False, overlay=None):
    """Run one property's driver on one tree; returns (code, report)."""
    mod = importlib.import_module(f"sa.props.{prop}")
    repo = Repo(root, overlay=overlay)
    rep = Report(prop, tier, repo, quiet=quiet, write_replay=overlay is None)
    try:
        mod.run(rep)
        rep.run(_generic_rules)
        for rel in sorted(repo.consulted):
            mi = repo.modules.get(rel)
            for q, opt, dflt in (getattr(mi, "specialised", None) or []):
                if q == "<module>":
                    rep.note(f"{rel}: named constant `{opt}` is newer than the pinned tree - its uses are read as the literal it names")
                    continue
                rep.note(f"{rel}:{q}: option `{opt}` is newer than the pinned tree and passed by no call in the package - analysed at its default {dflt} (what it does when turned on is not analysed)")
        code = rep.finish()
    except AnalysisError as exc:
        code = rep.finish()
        tag = "ANALYSIS-NOTE" if code == 1 else "ANALYSIS-ERROR"
        if not quiet:
            print(f"{tag} property={prop} {exc}")
        rep.result.setdefault("lines", []).append(f"{tag} property={prop} {exc}")
        if code != 1:
            code = 2
        rep.result["code"] = code
    return code, rep, mod


def write_evidence(prop: str, rep: Report, mod, code: int):
    meta = dict(mod.META)
    meta.setdefault("checker_cmd", f"/venv/bin/python -m sa.check {prop} --tier {rep.tier}")
    ev = rep.evidence(meta, code)
    os.makedirs(os.path.join(VERIF, "evidence"), exist_ok=True)
    path = os.path.join(VERIF, "evidence", f"{prop}.json")
    with open(path, "w") as fh:
        json.dump(ev, fh, indent=1, sort_keys=False)
        fh.write("\n")
    return path


def main(argv=None) -> int:
    ap = argparse.ArgumentParser()
    ap.add_argument("prop", nargs="?")
    ap.add_argument("--tier", default=os.environ.get("VERIF_TIER") or "quick",
                    choices=["quick", "thorough"])
    ap.add_argument("--root", default=os.environ.get("SA_ROOT", "/repo"))
    ap.add_argument("--replay")
    ap.add_argument("--no-evidence", action="store_true")
    ap.add_argument("--jobs", type=int, default=16)
    args = ap.parse_args(argv)

    if args.replay:
        with open(args.replay) as fh:
            rp = json.load(fh)
        prop = rp["property"]
        want = rp["finding"]
        code, rep, mod = analyse(prop, args.root, "quick", quiet=True)
        hit = [o for o in rep.obligations
               if o["status"] == "FAILS" and o["rule"] == want["rule"]
               and o["site"] == want["site"] and o["construct"] == want["construct"]]
        if hit:
            print(f"replay: finding still present at {hit[0]['where']}: {hit[0]['what']} :: {hit[0]['construct']}")
            print(f"VIOLATION property={prop} replay={args.replay}")
            return 1
        print(f"replay: finding no longer present on {args.root} (run code {code})")
        return 0 if code == 0 else code

    if not args.prop:
        ap.error("property id required")
    prop = args.prop
    if prop not in ALL:
        print(f"ANALYSIS-ERROR property={prop} no static check is claimed for this property")
        return 2
    code, rep, mod = analyse(prop, args.root, args.tier)
    if args.tier == "thorough" and code != 2:
        from . import thorough
        code = thorough.extend(prop, rep, mod, code, args)
    if not args.no_evidence:
        write_evidence(prop, rep, mod, code)
    return code


if __name__ == "__main__":
    try:
        rc = main()
    except AnalysisError as exc:
        print(f"ANALYSIS-ERROR {exc}")
        rc = 2
    except SystemExit:
        raise
    except BaseException:  # tracebacks must not look like violations (exit 1)
        traceback.print_exc()
        print("ANALYSIS-ERROR internal error in the analyser (see traceback)")
        rc = 2
    sys.exit(rc)
