"""R12 - invariant-label rule (prov domain).

In refinement / label builders node identifiers may be used only as lookup keys,
membership operands or iteration sources.  They must not flow *by value* into
the returned label, must not be ordered with ``<``/``>``, and every list that is
filled while iterating an unordered neighbour collection must pass through
``sorted`` / ``Counter`` / ``frozenset`` before it reaches the label.
"""
from __future__ import annotations

import ast
from typing import Dict, List, Optional, Set, Tuple

from ..core import FuncInfo, call_name, dotted, local_defs, norm, walk_local

GRAPH_ITERS = {"nodes", "neighbors", "successors", "predecessors", "edges", "in_edges", "out_edges", "adj", "adjacency",
               "all_neighbors"}
LOOKUPS = {"get", "degree", "in_degree", "out_degree", "has_edge", "has_node", "neighbors", "successors", "predecessors",
           "number_of_edges", "get_edge_data", "edges", "in_edges", "out_edges", "nodes", "index", "count", "subgraph"}
ORDER_FREE = {"sorted", "Counter", "frozenset", "set", "sum", "len", "min", "max", "any", "all"}


_SAFE_CALLEES: Set[str] = set()  # set per analyse() call: label builders that are checked themselves


def _value_names(expr: ast.AST, bound: Dict[str, ast.AST]) -> List[Tuple[str, ast.AST]]:
    """names occurring in *value position* of expr, with comprehension targets
    resolved to the value names of what they iterate over"""
    out: List[Tuple[str, ast.AST]] = []

    def go(n, bound):
        if isinstance(n, ast.Name):
            if n.id in bound:
                go(bound[n.id], {k: v for k, v in bound.items() if k != n.id})
            else:
                out.append((n.id, n))
        elif isinstance(n, ast.Subscript):
            go(n.value, bound)  # the index is a lookup key
        elif isinstance(n, ast.Compare):
            if any(isinstance(o, (ast.Lt, ast.Gt, ast.LtE, ast.GtE)) for o in n.ops):
                for x in [n.left] + list(n.comparators):
                    for nm in ast.walk(x):
                        if isinstance(nm, ast.Name):
                            out.append(("<ordered>" + nm.id, n))
            # == / in / is: only a truth value leaves
        elif isinstance(n, ast.Call):
            f = n.func
            if isinstance(f, ast.Attribute) and (f.attr in LOOKUPS or f.attr in _SAFE_CALLEES):
                go(f.value, bound)  # arguments are lookup keys
            elif isinstance(f, ast.Name) and f.id in ("len", "isinstance", "id", "type"):
                pass
            else:
                if isinstance(f, ast.Attribute):
                    go(f.value, bound)
                for a in n.args:
                    go(a, bound)
                for k in n.keywords:
                    go(k.value, bound)
        elif isinstance(n, (ast.ListComp, ast.SetComp, ast.GeneratorExp, ast.DictComp)):
            b2 = dict(bound)
            for g in n.generators:
                for t in ast.walk(g.target):
                    if isinstance(t, ast.Name):
                        b2[t.id] = g.iter
            if isinstance(n, ast.DictComp):
                go(n.key, b2)
                go(n.value, b2)
            else:
                go(n.elt, b2)
        elif isinstance(n, ast.IfExp):
            go(n.test, bound)  # only ordering comparisons contribute (see Compare)
            go(n.body, bound)
            go(n.orelse, bound)
        elif isinstance(n, ast.Lambda):
            pass
        elif isinstance(n, ast.JoinedStr):
            for v in n.values:
                if isinstance(v, ast.FormattedValue):
                    go(v.value, bound)
        else:
            for c in ast.iter_child_nodes(n):
                go(c, bound)

    go(expr, dict(bound))
    return out


def _total_key(call: ast.Call) -> bool:
    """sort / sorted without key, or with a key that is the element itself (or a tuple containing it)"""
    key = None
    for k in call.keywords:
        if k.arg == "key":
            key = k.value
    if key is None:
        return True
    if isinstance(key, ast.Lambda) and len(key.args.args) == 1:
        a = key.args.args[0].arg
        body = key.body
        elts = body.elts if isinstance(body, ast.Tuple) else [body]
        return any(isinstance(e, ast.Name) and e.id == a for e in elts) or \
            any(isinstance(e, ast.Call) and isinstance(e.func, ast.Name) and e.func.id in ("tuple", "repr", "str") and e.args
                and isinstance(e.args[0], ast.Name) and e.args[0].id == a for e in elts)
    return False


def analyse(fi: FuncInfo, id_params: Set[str], id_collections: Set[str], graph_names: Set[str] = frozenset({"G", "g", "self.G"}),
            extra_ok: Set[str] = frozenset(), safe_callees: Set[str] = frozenset()):
    """returns (leaks, unordered, facts)
       leaks:     [(node, message)]  node id flowing by value into the result / being ordered
       unordered: [(node, message)]  list filled in neighbour-iteration order reaching the result unsorted"""
    fn = fi.node
    _SAFE_CALLEES.clear()
    _SAFE_CALLEES.update(safe_callees)
    defs = local_defs(fn, into_nested=False)
    tainted: Set[str] = set(id_params)
    colls: Set[str] = set(id_collections)
    # loop targets over graph iterators / id collections are ids
    loop_iters: Dict[str, ast.AST] = {}
    changed = True
    while changed:
        changed = False
        for n in walk_local(fn):
            if isinstance(n, (ast.For, ast.comprehension)):
                it = n.iter
                src_is_ids = False
                base = it
                if isinstance(base, ast.IfExp):
                    base = base.body
                while isinstance(base, ast.Call) and isinstance(base.func, ast.Name) and base.func.id in ("sorted", "list", "set", "tuple", "reversed", "enumerate") and base.args:
                    base = base.args[0]
                if isinstance(base, ast.Call) and isinstance(base.func, ast.Attribute) and base.func.attr in GRAPH_ITERS:
                    src_is_ids = True
                if isinstance(base, ast.Attribute) and base.attr in GRAPH_ITERS:
                    src_is_ids = True
                if isinstance(base, ast.Name) and (base.id in colls or base.id in graph_names):
                    src_is_ids = True
                if isinstance(base, ast.Subscript) and isinstance(base.value, ast.Name) and base.value.id in colls:
                    src_is_ids = True
                if src_is_ids:
                    tgt = n.target
                    names = [x.id for x in ast.walk(tgt) if isinstance(x, ast.Name)]
                    if isinstance(it, ast.Call) and isinstance(it.func, ast.Name) and it.func.id == "enumerate" and isinstance(tgt, ast.Tuple):
                        names = [x.id for x in ast.walk(tgt.elts[1]) if isinstance(x, ast.Name)]
                    # (u, v, data) of edges(data=True): data dicts are not ids
                    if isinstance(tgt, ast.Tuple) and len(tgt.elts) == 3 and "data=True" in norm(it):
                        names = [x.id for e in tgt.elts[:2] for x in ast.walk(e) if isinstance(x, ast.Name)]
                    if isinstance(tgt, ast.Tuple) and len(tgt.elts) == 2 and "data=True" in norm(it) and ".nodes" in norm(it):
                        names = [x.id for x in ast.walk(tgt.elts[0]) if isinstance(x, ast.Name)]
                    for nm in names:
                        if nm != "_" and nm not in tainted:
                            tainted.add(nm)
                            colls.add(nm)  # a cell of a partition is again a collection of ids
                            changed = True
            if isinstance(n, ast.Assign) and len(n.targets) == 1 and isinstance(n.targets[0], ast.Name):
                v = n.value
                base = v
                while isinstance(base, ast.Call) and isinstance(base.func, ast.Name) and base.func.id in ("sorted", "list", "set", "tuple") and base.args:
                    base = base.args[0]
                is_ids = (isinstance(base, ast.Call) and isinstance(base.func, ast.Attribute) and base.func.attr in GRAPH_ITERS) or \
                         (isinstance(base, ast.Name) and base.id in colls) or \
                         (isinstance(base, ast.Subscript) and isinstance(base.value, ast.Name) and base.value.id in colls
                          and not isinstance(base.slice, ast.Slice)) or \
                         (isinstance(base, ast.BinOp) and isinstance(base.op, (ast.BitOr, ast.Add)) and any(
                             isinstance(x, ast.Call) and isinstance(x.func, ast.Attribute) and x.func.attr in GRAPH_ITERS for x in ast.walk(base)))
                if is_ids and n.targets[0].id not in colls:
                    colls.add(n.targets[0].id)
                    tainted.add(n.targets[0].id)
                    changed = True
    tainted -= set(extra_ok)

    # closure of value names reachable from the returns
    leaks: List[Tuple[ast.AST, str]] = []
    unordered: List[Tuple[ast.AST, str]] = []
    seen: Set[str] = set()
    work: List[Tuple[str, ast.AST]] = []
    rets = [n for n in walk_local(fn) if isinstance(n, ast.Return) and n.value is not None]
    for r in rets:
        work += _value_names(r.value, {})
    appended: Dict[str, List[Tuple[ast.AST, ast.AST]]] = {}
    pm = {}
    for p in ast.walk(fn):
        for c in ast.iter_child_nodes(p):
            pm[c] = p
    for n in walk_local(fn):
        if isinstance(n, ast.Call) and isinstance(n.func, ast.Attribute) and n.func.attr in ("append", "add", "extend", "update") \
                and isinstance(n.func.value, ast.Name) and n.args:
            appended.setdefault(n.func.value.id, []).append((n.args[0], n))
        if isinstance(n, ast.Assign):
            for t in n.targets:
                if isinstance(t, ast.Subscript) and isinstance(t.value, ast.Name):
                    appended.setdefault(t.value.id, []).append((n.value, n))
        if isinstance(n, ast.AugAssign) and isinstance(n.target, ast.Subscript) and isinstance(n.target.value, ast.Name):
            appended.setdefault(n.target.value.id, []).append((n.value, n))
    while work:
        nm, node = work.pop()
        if nm.startswith("<ordered>"):
            base = nm[len("<ordered>"):]
            if base in tainted:
                leaks.append((node, f"node identifier `{base}` is ordered with </>: the outcome depends on the numbering"))
            continue
        if nm in seen:
            continue
        seen.add(nm)
        if nm in tainted:
            leaks.append((node, f"node identifier `{nm}` flows by value into the label (labels must be numbering-independent)"))
            continue
        for d in defs.get(nm, []):
            if d.kind in ("assign", "aug", "walrus") and d.value is not None:
                work += _value_names(d.value, {})
            elif d.kind in ("for", "comp") and d.value is not None:
                work += _value_names(d.value, {})
        for val, call in appended.get(nm, []):
            work += _value_names(val, {})
            # conditions that decide *whether/which* value is stored leak ordering information too
            cur = pm.get(call)
            while cur is not None and cur is not fn:
                if isinstance(cur, (ast.If, ast.While)):
                    work += [x for x in _value_names(cur.test, {}) if x[0].startswith("<ordered>")]
                cur = pm.get(cur)
    # order-sensitive accumulation
    for nm, items in appended.items():
        if nm not in seen:
            continue
        for val, call in items:
            if not (isinstance(call, ast.Call) and call.func.attr in ("append", "extend")):
                continue
            # inside a loop over an unordered id source?  Only loops that enclose the
            # append but *not* the list's (re)initialisation order its contents.
            inits = [d.stmt for d in defs.get(nm, []) if d.kind == "assign"]
            init_loops = set()
            for st in inits:
                c2 = pm.get(st)
                while c2 is not None and c2 is not fn:
                    if isinstance(c2, ast.For):
                        init_loops.add(id(c2))
                    c2 = pm.get(c2)
            cur = pm.get(call)
            unordered_loop = None
            while cur is not None and cur is not fn:
                if isinstance(cur, ast.For) and id(cur) in init_loops:
                    break
                if isinstance(cur, ast.For):
                    it = cur.iter
                    base = it
                    if isinstance(base, ast.IfExp):
                        base = base.body
                    if isinstance(base, ast.Call) and isinstance(base.func, ast.Name) and base.func.id == "sorted":
                        break
                    src = norm(base)
                    if (isinstance(base, ast.Call) and isinstance(base.func, ast.Attribute) and base.func.attr in GRAPH_ITERS) or \
                            (isinstance(base, ast.Name) and base.id in colls and base.id not in id_collections):
                        unordered_loop = cur
                        break
                cur = pm.get(cur)
            if unordered_loop is None:
                continue
            # every value use of nm on the way to the result must be wrapped in an order-free call
            uses = [u for u in walk_local(fn) if isinstance(u, ast.Name) and u.id == nm and isinstance(u.ctx, ast.Load)]
            bad = []
            for u in uses:
                par = pm.get(u)
                if isinstance(par, ast.Attribute):  # nm.append / nm.sort
                    continue
                if isinstance(par, ast.Call) and isinstance(par.func, ast.Name) and par.func.id in ORDER_FREE:
                    if par.func.id == "sorted" and not _total_key(par):
                        unordered.append((par, f"`sorted({nm}, key=...)` orders on a part of each element only: ties keep neighbour-iteration order"))
                    continue
                if isinstance(par, ast.Subscript) and par.value is u:
                    continue
                bad.append(u)
            sorts = [c for c in walk_local(fn) if isinstance(c, ast.Call) and isinstance(c.func, ast.Attribute) and c.func.attr == "sort"
                     and isinstance(c.func.value, ast.Name) and c.func.value.id == nm]
            partial = [c for c in sorts if not _total_key(c)]
            for c in partial:
                unordered.append((c, f"`{nm}.sort(key=...)` orders on a part of each element only: ties keep neighbour-iteration order, so the label is not canonical"))
            sorts = [c for c in sorts if _total_key(c)]
            # `nm = tuple(sorted(nm))`: a later re-binding of the same name to an order-free form
            rebinds = []
            for d in defs.get(nm, []):
                if d.kind == "assign" and d.value is not None:
                    for c2 in ast.walk(d.value):
                        if isinstance(c2, ast.Call) and isinstance(c2.func, ast.Name) and c2.func.id in ORDER_FREE \
                                and any(isinstance(x, ast.Name) and x.id == nm for a in c2.args for x in ast.walk(a)):
                            rebinds.append(d.stmt.lineno)
            last_append = max((c3.lineno for _v, c3 in items), default=0)
            bad = [u for u in bad if not any(last_append < rb < u.lineno for rb in rebinds)]
            if bad and not sorts:
                unordered.append((bad[0], f"`{nm}` is filled in neighbour-iteration order ({norm(unordered_loop.iter)}) and reaches the label unsorted"))
    # a *sequence* built by a comprehension over an unordered id source (tuple(f(nbr) for nbr in G.neighbors(v)), also through a local
    # `nbrs = list(G.neighbors(v))`) carries the iteration order of that source: on its way to the label it must pass an order-free call
    def _unordered_source(it):
        base = it.body if isinstance(it, ast.IfExp) else it
        while isinstance(base, ast.Call) and isinstance(base.func, ast.Name) and base.func.id in ("list", "tuple", "reversed", "enumerate", "iter") and base.args:
            base = base.args[0]
        if isinstance(base, ast.Call) and isinstance(base.func, ast.Name) and base.func.id in ("sorted", "set", "frozenset"):
            return False
        if isinstance(base, ast.Call) and isinstance(base.func, ast.Attribute) and base.func.attr in GRAPH_ITERS:
            return True
        if isinstance(base, ast.Name) and base.id not in id_collections:
            ds = [d for d in defs.get(base.id, []) if d.kind == "assign" and d.value is not None]
            # bound once, or once per branch: every binding is such a source
            return bool(ds) and len(ds) == len(defs.get(base.id, [])) and all(d.value is not it and _unordered_source(d.value) for d in ds)
        return False
    for comp in walk_local(fn):
        if not isinstance(comp, (ast.ListComp, ast.GeneratorExp)) or not comp.generators or not _unordered_source(comp.generators[0].iter):
            continue
        if isinstance(comp.elt, ast.Constant):
            continue
        cur, child, free = pm.get(comp), comp, False
        while cur is not None and not isinstance(cur, ast.stmt):
            if isinstance(cur, ast.Call) and isinstance(cur.func, ast.Name) and cur.func.id in ORDER_FREE and child in cur.args:
                free = True
                break
            if isinstance(cur, ast.Call) and not (isinstance(cur.func, ast.Name) and cur.func.id in ("tuple", "list")) and not (
                    isinstance(cur.func, ast.Attribute) and cur.func.attr == "join"):
                free = None     # consumed by some other call: not this rule's business
                break
            if isinstance(cur, (ast.comprehension, ast.Compare, ast.Lambda)):
                free = None
                break
            child, cur = cur, pm.get(cur)
        if free is not False:
            continue
        reaches = isinstance(cur, ast.Return) or (isinstance(cur, ast.Assign) and any(isinstance(t, ast.Name) and t.id in seen for t in cur.targets))
        if not reaches:
            continue
        if isinstance(cur, ast.Assign):
            nm = cur.targets[0].id
            uses = [u for u in walk_local(fn) if isinstance(u, ast.Name) and u.id == nm and isinstance(u.ctx, ast.Load)]
            wrapped = [u for u in uses if isinstance(pm.get(u), ast.Call) and isinstance(pm[u].func, ast.Name) and pm[u].func.id in ORDER_FREE]
            sorts = [c for c in walk_local(fn) if isinstance(c, ast.Call) and isinstance(c.func, ast.Attribute) and c.func.attr == "sort"
                     and isinstance(c.func.value, ast.Name) and c.func.value.id == nm]
            if sorts or (uses and len(wrapped) == len(uses)):
                continue
        unordered.append((comp, f"a sequence is built in neighbour-iteration order ({norm(comp.generators[0].iter)}) and reaches the label unsorted"))
    facts = {"id_names": sorted(tainted), "id_collections": sorted(colls), "value_names_in_label": sorted(seen)}
    return leaks, unordered, facts
