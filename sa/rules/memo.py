"""R1 - memo-key rule.

(a) completeness: every free input of the memoised computation is a component
    of the key, or is fixed for the lifetime of the cache;
(b) identity retention: ``id(x)`` may be a key component only if ``x`` is kept
    alive as long as the entry (stored in the entry, or rooted at the cache
    owner).  CPython guarantees ``id`` uniqueness only among simultaneously live
    objects; ``id(<temporary>)`` is never sound.
"""
from __future__ import annotations

import ast
from dataclasses import dataclass, field
from typing import Dict, List, Optional, Set, Tuple

from ..core import FuncInfo, Repo, call_name, dotted, local_defs, norm, origin, walk_local


@dataclass
class MemoSite:
    fi: FuncInfo
    cache_attr: str  # e.g. "_wl_cache"
    cache_level: str  # "class" | "instance" | "local"
    key_parts: List[ast.AST]
    store: ast.AST
    value: ast.AST
    compute: Optional[ast.Call]
    inputs: List[Tuple[str, ast.AST]] = field(default_factory=list)  # (text, node)
    problems: List[Tuple[str, ast.AST, str]] = field(default_factory=list)  # (kind, node, message)
    covered: List[str] = field(default_factory=list)


def _cache_root(expr: ast.AST, aliases: Dict[str, Tuple[str, List[ast.AST]]]):
    """(cache attribute, key prefix) if expr denotes the cache or a sub-dict of it."""
    if isinstance(expr, ast.Attribute) and isinstance(expr.value, ast.Name) and expr.value.id in ("self", "cls"):
        return expr.attr, []
    if isinstance(expr, ast.Name) and expr.id in aliases:
        return aliases[expr.id]
    return None


def _expand_key(defs, k: ast.AST) -> List[ast.AST]:
    k = origin(defs, k)
    if isinstance(k, ast.Tuple):
        out = []
        for e in k.elts:
            out += _expand_key(defs, e)
        return out
    if isinstance(k, ast.BinOp) and isinstance(k.op, ast.Add):  # tuple concatenation
        return _expand_key(defs, k.left) + _expand_key(defs, k.right)
    return [k]


def cache_level(repo: Repo, fi: FuncInfo, attr: str) -> str:
    cls = fi.cls
    if cls is None:
        return "local"
    for st in cls.body:
        tg = []
        if isinstance(st, ast.Assign):
            tg = st.targets
        elif isinstance(st, ast.AnnAssign):
            tg = [st.target]
        if any(isinstance(t, ast.Name) and t.id == attr for t in tg):
            return "class"
    return "instance"


def _self_attr_writes_outside_init(fi: FuncInfo, attr: str) -> List[ast.AST]:
    out = []
    if fi.cls is None:
        return out
    for m in fi.cls.body:
        if isinstance(m, (ast.FunctionDef, ast.AsyncFunctionDef)) and m.name not in ("__init__", "__post_init__"):
            for n in ast.walk(m):
                tg = []
                if isinstance(n, ast.Assign):
                    tg = n.targets
                elif isinstance(n, (ast.AugAssign, ast.AnnAssign)):
                    tg = [n.target]
                for t in tg:
                    if isinstance(t, ast.Attribute) and isinstance(t.value, ast.Name) and t.value.id == "self" and t.attr == attr:
                        out.append(n)
    return out


def memo_sites(repo: Repo, fi: FuncInfo, cache_attrs: Optional[Set[str]] = None) -> List[MemoSite]:
    fn = fi.node
    defs = local_defs(fn)
    aliases: Dict[str, Tuple[str, List[ast.AST]]] = {}
    # aliases of sub-dicts: x = self.C.setdefault(k, {}) / x = self.C[k] / x = self.C
    for n in walk_local(fn):
        if isinstance(n, ast.Assign) and len(n.targets) == 1 and isinstance(n.targets[0], ast.Name):
            v = n.value
            if isinstance(v, ast.Call) and isinstance(v.func, ast.Attribute) and v.func.attr == "setdefault" and v.args:
                r = _cache_root(v.func.value, aliases)
                if r:
                    aliases[n.targets[0].id] = (r[0], r[1] + [v.args[0]])
            elif isinstance(v, ast.Subscript):
                r = _cache_root(v.value, aliases)
                if r and (cache_attrs is None or r[0] in cache_attrs):
                    pass  # a read, not an alias of a sub-dict we store into
            elif isinstance(v, ast.Attribute):
                r = _cache_root(v, aliases)
                if r and cache_attrs and r[0] in cache_attrs:
                    aliases[n.targets[0].id] = r
    sites = []
    for n in walk_local(fn):
        if isinstance(n, ast.Assign) and len(n.targets) == 1 and isinstance(n.targets[0], ast.Subscript):
            t = n.targets[0]
            r = _cache_root(t.value, aliases)
            if not r:
                continue
            attr, prefix = r
            if cache_attrs is not None and attr not in cache_attrs:
                continue
            key_parts = []
            for p in prefix + [t.slice]:
                key_parts += _expand_key(defs, p)
            val = origin(defs, n.value)
            stored_members = [val]
            if isinstance(val, ast.Tuple):
                stored_members = [origin(defs, e) for e in val.elts]
            compute = None
            for m in stored_members:
                if isinstance(m, ast.Call):
                    compute = m
            s = MemoSite(fi, attr, cache_level(repo, fi, attr), key_parts, n, n.value, compute)
            _analyse(repo, s, defs, val)
            sites.append(s)
    return sites


def _analyse(repo: Repo, s: MemoSite, defs, stored_val: ast.AST):
    fi = s.fi
    key_txt = {norm(k) for k in s.key_parts}
    id_of = {}
    for k in s.key_parts:
        if isinstance(k, ast.Call) and isinstance(k.func, ast.Name) and k.func.id == "id" and k.args:
            id_of[norm(k.args[0])] = k
    # ---- inputs of the computation
    inputs: List[Tuple[str, ast.AST]] = []
    c = s.compute
    if c is not None:
        for a in list(c.args) + [k.value for k in c.keywords]:
            a = origin(defs, a)
            if isinstance(a, ast.Constant):
                continue
            inputs.append((norm(a), a))
        # receiver state read by a self-method callee (depth 1)
        if isinstance(c.func, ast.Attribute) and isinstance(c.func.value, ast.Name) and c.func.value.id == "self" and fi.cls:
            callee = fi.module.funcs.get(f"{fi.cls.name}.{c.func.attr}")
            if callee is not None:
                for n in ast.walk(callee.node):
                    if isinstance(n, ast.Attribute) and isinstance(n.value, ast.Name) and n.value.id == "self" \
                            and isinstance(n.ctx, ast.Load) and n.attr != s.cache_attr:
                        # skip method references
                        if f"{fi.cls.name}.{n.attr}" in fi.module.funcs:
                            continue
                        inputs.append((f"self.{n.attr}", n))
    seen = set()
    for txt, node in inputs:
        if txt in seen:
            continue
        seen.add(txt)
        s.inputs.append((txt, node))
        if txt in key_txt or txt in id_of:
            s.covered.append(txt)
            continue
        if txt.startswith("self."):
            attr = txt.split(".")[1]
            if s.cache_level == "instance" and not _self_attr_writes_outside_init(fi, attr):
                s.covered.append(txt + " (fixed per instance)")
                continue
            why = ("the cache is shared by all instances (class level)" if s.cache_level == "class"
                   else "it is re-assigned outside __init__")
            s.problems.append(("incomplete-key", node, f"the cached value depends on `{txt}` which is not part of the key; {why}"))
            continue
        s.problems.append(("incomplete-key", node, f"the cached value depends on `{txt}` which is not part of the key"))
    # ---- identity retention
    stored_names = set()
    if isinstance(stored_val, ast.Tuple):
        stored_names = {norm(e) for e in stored_val.elts}
    else:
        stored_names = {norm(stored_val)}
    for target, k in id_of.items():
        targ_node = k.args[0]
        if not isinstance(targ_node, (ast.Name, ast.Attribute)):
            s.problems.append(("id-of-temporary", k, f"`{norm(k)}` takes the identity of a temporary; ids are reused once it is dropped"))
            continue
        if target in stored_names:
            s.covered.append(f"id({target}) retained in the entry")
            continue
        if target.startswith("self."):
            s.covered.append(f"id({target}) rooted at the cache owner")
            continue
        s.problems.append(("id-not-retained", k, f"`{norm(k)}` is a key component but `{target}` is not kept alive by the entry; "
                                                  f"a later object can reuse the id and inherit this entry"))
    # a weak-key mapping keyed by the object itself retains nothing but dies with the key: accepted


def id_calls(fn: ast.AST) -> List[ast.Call]:
    return [n for n in walk_local(fn, into_nested=True) if isinstance(n, ast.Call) and isinstance(n.func, ast.Name)
            and n.func.id == "id" and len(n.args) == 1]


# --------------------------------------------------------------------------
# local (per-call) caches:  cache = {} ... if k not in cache: cache[k] = f(..)
# --------------------------------------------------------------------------
def local_memo_sites(repo: Repo, fi: FuncInfo) -> List[MemoSite]:
    from ..core import parent_map
    fn = fi.node
    defs = local_defs(fn)
    pm = parent_map(fn)
    caches = {}
    for nm, ds in defs.items():
        for d in ds:
            if d.kind == "assign" and (isinstance(d.value, ast.Dict) and not d.value.keys
                                       or (isinstance(d.value, ast.Call) and dotted(d.value.func) == "dict" and not d.value.args)):
                caches.setdefault(nm, []).append(d.stmt)
    sites = []
    for n in walk_local(fn):
        if not (isinstance(n, ast.Assign) and len(n.targets) == 1 and isinstance(n.targets[0], ast.Subscript)
                and isinstance(n.targets[0].value, ast.Name) and n.targets[0].value.id in caches):
            continue
        t = n.targets[0]
        cname = t.value.id
        val = origin(defs, n.value)
        if not isinstance(val, ast.Call):
            continue
        # a memo store is guarded by a membership test on the same key
        guarded = False
        cur = pm.get(n)
        while cur is not None and cur is not fn:
            if isinstance(cur, ast.If) and isinstance(cur.test, ast.Compare) and isinstance(cur.test.ops[0], (ast.NotIn, ast.In)) \
                    and norm(cur.test.comparators[0]) == cname:
                guarded = True
            cur = pm.get(cur)
        if not guarded:
            continue
        key_parts = _expand_key(defs, t.slice)
        s = MemoSite(fi, cname, "local", key_parts, n, n.value, val)
        key_txt = {norm(k) for k in key_parts}
        # loops enclosing the cache initialisation(s)
        def loops_of(node):
            out, c = [], pm.get(node)
            while c is not None and c is not fn:
                if isinstance(c, (ast.For, ast.While)):
                    out.append(c)
                c = pm.get(c)
            return out
        init_loops = [set(map(id, loops_of(st))) for st in caches[cname]]
        for a in list(val.args) + [k.value for k in val.keywords]:
            a0 = origin(defs, a) if not isinstance(a, ast.Name) else a
            txt = norm(a0)
            if isinstance(a0, ast.Constant):
                continue
            s.inputs.append((txt, a0))
            if txt in key_txt:
                s.covered.append(txt)
                continue
            if isinstance(a0, ast.Name):
                rebinds = [d for d in defs.get(a0.id, []) if d.kind != "param"]
                if not rebinds:
                    s.covered.append(f"{txt} (parameter, fixed for the cache's lifetime)")
                    continue
                ok_all = True
                for d in rebinds:
                    lps = loops_of(d.stmt)
                    if not lps:
                        # re-bound outside any loop (e.g. before the cache exists): harmless if before the init
                        if all(d.stmt.lineno < st.lineno for st in caches[cname]):
                            continue
                        ok_all = False
                        break
                    L = lps[0]
                    # (i) the cache is re-created inside the same loop -> it never outlives one value of the input
                    if any(id(L) in il for il in init_loops):
                        continue
                    # (ii) a key component is advanced unconditionally in the same loop body
                    adv = False
                    for k in key_parts:
                        if isinstance(k, ast.Name):
                            for st in L.body:
                                if isinstance(st, ast.AugAssign) and norm(st.target) == k.id:
                                    adv = True
                                if isinstance(st, ast.Assign) and any(norm(x) == k.id for x in st.targets):
                                    # a fresh value each round is only sound if it is not an id() of a temporary
                                    v2 = st.value
                                    if isinstance(v2, ast.Call) and isinstance(v2.func, ast.Name) and v2.func.id == "id":
                                        s.problems.append(("id-of-temporary", v2,
                                                           f"`{k.id} = {norm(v2)[:60]}` stands in for `{txt}` in the key, but the id of a dropped temporary can be reused: "
                                                           f"entries computed for an earlier `{txt}` are then served for a later one"))
                                        adv = True
                                    else:
                                        adv = True
                    if not adv:
                        ok_all = False
                        break
                if ok_all:
                    s.covered.append(f"{txt} (represented in the key by a per-round counter / cache re-created per round)")
                    continue
                s.problems.append(("incomplete-key", a0, f"the cached value depends on `{txt}`, which changes while the cache lives, but the key does not reflect it"))
                continue
            if txt.startswith("self."):
                s.covered.append(txt + " (receiver state, fixed during the call)")
                continue
            s.problems.append(("incomplete-key", a0, f"the cached value depends on `{txt}` which is not part of the key"))
        for k in key_parts:
            if isinstance(k, ast.Call) and isinstance(k.func, ast.Name) and k.func.id == "id" and k.args \
                    and not isinstance(k.args[0], (ast.Name, ast.Attribute)):
                s.problems.append(("id-of-temporary", k, f"`{norm(k)[:60]}` takes the identity of a temporary; ids are reused once it is dropped"))
        sites.append(s)
    return sites
