"""R1 - memo-key rule.

(a) completeness: every free input of the memoised computation is a component
    of the key, or is fixed for the lifetime of the cache;
(b) identity retention: ``id(x)`` may be a key component only if ``x`` is kept
    alive as long as the entry (stored in the entry, or rooted at the cache
    owner).  CPython guarantees ``id`` uniqueness only among simultaneously live
    objects; ``id(<temporary>)`` is never sound.
"""
from __future__ import annotations

import ast
from dataclasses import dataclass, field
from typing import Dict, List, Optional, Set, Tuple

from ..core import FuncInfo, Repo, call_name, dotted, local_defs, norm, origin, walk_local


@dataclass
class MemoSite:
    fi: FuncInfo
    cache_attr: str  # e.g. "_wl_cache"
    cache_level: str  # "class" | "instance" | "local"
    key_parts: List[ast.AST]
    store: ast.AST
    value: ast.AST
    compute: Optional[ast.Call]
    inputs: List[Tuple[str, ast.AST]] = field(default_factory=list)  # (text, node)
    problems: List[Tuple[str, ast.AST, str]] = field(default_factory=list)  # (kind, node, message)
    covered: List[str] = field(default_factory=list)


def _cache_root(expr: ast.AST, aliases: Dict[str, Tuple[str, List[ast.AST]]]):
    """(cache attribute, key prefix) if expr denotes the cache or a sub-dict of it."""
    if isinstance(expr, ast.Attribute) and isinstance(expr.value, ast.Name) and expr.value.id in ("self", "cls"):
        return expr.attr, []
    if isinstance(expr, ast.Name) and expr.id in aliases:
        return aliases[expr.id]
    return None


def _expand_key(defs, k: ast.AST) -> List[ast.AST]:
    k = origin(defs, k)
    if isinstance(k, ast.Tuple):
        out = []
        for e in k.elts:
            out += _expand_key(defs, e)
        return out
    if isinstance(k, ast.BinOp) and isinstance(k.op, ast.Add):  # tuple concatenation
        return _expand_key(defs, k.left) + _expand_key(defs, k.right)
    return [k]


def cache_level(repo: Repo, fi: FuncInfo, attr: str) -> str:
    cls = fi.cls
    if cls is None:
        return "local"
    for st in cls.body:
        tg = []
        if isinstance(st, ast.Assign):
            tg = st.targets
        elif isinstance(st, ast.AnnAssign):
            tg = [st.target]
        if any(isinstance(t, ast.Name) and t.id == attr for t in tg):
            return "class"
    return "instance"


def _self_attr_writes_outside_init(fi: FuncInfo, attr: str) -> List[ast.AST]:
    out = []
    if fi.cls is None:
        return out
    for m in fi.cls.body:
        if isinstance(m, (ast.FunctionDef, ast.AsyncFunctionDef)) and m.name not in ("__init__", "__post_init__"):
            for n in ast.walk(m):
                tg = []
                if isinstance(n, ast.Assign):
                    tg = n.targets
                elif isinstance(n, (ast.AugAssign, ast.AnnAssign)):
                    tg = [n.target]
                for t in tg:
                    if isinstance(t, ast.Attribute) and isinstance(t.value, ast.Name) and t.value.id == "self" and t.attr == attr:
                        out.append(n)
    return out


def memo_sites(repo: Repo, fi: FuncInfo, cache_attrs: Optional[Set[str]] = None) -> List[MemoSite]:
    fn = fi.node
    defs = local_defs(fn)
    aliases: Dict[str, Tuple[str, List[ast.AST]]] = {}
    # aliases of sub-dicts: x = self.C.setdefault(k, {}) / x = self.C[k] / x = self.C
    for n in walk_local(fn):
        if isinstance(n, ast.Assign) and len(n.targets) == 1 and isinstance(n.targets[0], ast.Name):
            v = n.value
            if isinstance(v, ast.Call) and isinstance(v.func, ast.Attribute) and v.func.attr == "setdefault" and v.args:
                r = _cache_root(v.func.value, aliases)
                if r:
                    aliases[n.targets[0].id] = (r[0], r[1] + [v.args[0]])
            elif isinstance(v, ast.Subscript):
                r = _cache_root(v.value, aliases)
                if r and (cache_attrs is None or r[0] in cache_attrs):
                    pass  # a read, not an alias of a sub-dict we store into
            elif isinstance(v, ast.Attribute):
                r = _cache_root(v, aliases)
                if r and cache_attrs and r[0] in cache_attrs:
                    aliases[n.targets[0].id] = r
    sites = []
    for n in walk_local(fn):
        if isinstance(n, ast.Assign) and len(n.targets) == 1 and isinstance(n.targets[0], ast.Subscript):
            t = n.targets[0]
            r = _cache_root(t.value, aliases)
            if not r:
                continue
            attr, prefix = r
            if cache_attrs is not None and attr not in cache_attrs:
                continue
            key_parts = []
            for p in prefix + [t.slice]:
                key_parts += _expand_key(defs, p)
            val = origin(defs, n.value)
            stored_members = [val]
            if isinstance(val, ast.Tuple):
                stored_members = [origin(defs, e) for e in val.elts]
            compute = None
            for m in stored_members:
                if isinstance(m, ast.Call):
                    compute = m
            s = MemoSite(fi, attr, cache_level(repo, fi, attr), key_parts, n, n.value, compute)
            _analyse(repo, s, defs, val)
            sites.append(s)
    return sites


def _analyse(repo: Repo, s: MemoSite, defs, stored_val: ast.AST):
    fi = s.fi
    key_txt = {norm(k) for k in s.key_parts}
    id_of = {}
    for k in s.key_parts:
        if isinstance(k, ast.Call) and isinstance(k.func, ast.Name) and k.func.id == "id" and k.args:
            id_of[norm(k.args[0])] = k
    # ---- inputs of the computation
    inputs: List[Tuple[str, ast.AST]] = []
    c = s.compute
    if c is not None:
        for a in list(c.args) + [k.value for k in c.keywords]:
            a = origin(defs, a)
            if isinstance(a, ast.Constant):
                continue
            inputs.append((norm(a), a))
        # receiver state read by a self-method callee (depth 1)
        if isinstance(c.func, ast.Attribute) and isinstance(c.func.value, ast.Name) and c.func.value.id == "self" and fi.cls:
            callee = fi.module.funcs.get(f"{fi.cls.name}.{c.func.attr}")
            if callee is not None:
                for n in ast.walk(callee.node):
                    if isinstance(n, ast.Attribute) and isinstance(n.value, ast.Name) and n.value.id == "self" \
                            and isinstance(n.ctx, ast.Load) and n.attr != s.cache_attr:
                        # skip method references
                        if f"{fi.cls.name}.{n.attr}" in fi.module.funcs:
                            continue
                        inputs.append((f"self.{n.attr}", n))
    seen = set()
    for txt, node in inputs:
        if txt in seen:
            continue
        seen.add(txt)
        s.inputs.append((txt, node))
        if txt in key_txt or txt in id_of:
            s.covered.append(txt)
            continue
        if txt.startswith("self."):
            attr = txt.split(".")[1]
            if s.cache_level == "instance" and not _self_attr_writes_outside_init(fi, attr):
                s.covered.append(txt + " (fixed per instance)")
                continue
            why = ("the cache is shared by all instances (class level)" if s.cache_level == "class"
                   else "it is re-assigned outside __init__")
            s.problems.append(("incomplete-key", node, f"the cached value depends on `{txt}` which is not part of the key; {why}"))
            continue
        s.problems.append(("incomplete-key", node, f"the cached value depends on `{txt}` which is not part of the key"))
    # ---- identity retention
    stored_names = set()
    if isinstance(stored_val, ast.Tuple):
        stored_names = {norm(e) for e in stored_val.elts}
    else:
        stored_names = {norm(stored_val)}
    for target, k in id_of.items():
        targ_node = k.args[0]
        if not isinstance(targ_node, (ast.Name, ast.Attribute)):
            s.problems.append(("id-of-temporary", k, f"`{norm(k)}` takes the identity of a temporary; ids are reused once it is dropped"))
            continue
        if target in stored_names:
            s.covered.append(f"id({target}) retained in the entry")
            continue
        if target.startswith("self."):
            s.covered.append(f"id({target}) rooted at the cache owner")
            continue
        s.problems.append(("id-not-retained", k, f"`{norm(k)}` is a key component but `{target}` is not kept alive by the entry; "
                                                  f"a later object can reuse the id and inherit this entry"))
    # a weak-key mapping keyed by the object itself retains nothing but dies with the key: accepted


def id_calls(fn: ast.AST) -> List[ast.Call]:
    return [n for n in walk_local(fn, into_nested=True) if isinstance(n, ast.Call) and isinstance(n.func, ast.Name)
            and n.func.id == "id" and len(n.args) == 1]


# --------------------------------------------------------------------------
# local (per-call) caches:  cache = {} ... if k not in cache: cache[k] = f(..)
# --------------------------------------------------------------------------
def local_memo_sites(repo: Repo, fi: FuncInfo) -> List[MemoSite]:
    from ..core import parent_map
    fn = fi.node
    defs = local_defs(fn)
    pm = parent_map(fn)
    caches = {}
    for nm, ds in defs.items():
        for d in ds:
            if d.kind == "assign" and (isinstance(d.value, ast.Dict) and not d.value.keys
                                       or (isinstance(d.value, ast.Call) and dotted(d.value.func) == "dict" and not d.value.args)):
                caches.setdefault(nm, []).append(d.stmt)
    sites = []
    for n in walk_local(fn):
        if not (isinstance(n, ast.Assign) and len(n.targets) == 1 and isinstance(n.targets[0], ast.Subscript)
                and isinstance(n.targets[0].value, ast.Name) and n.targets[0].value.id in caches):
            continue
        t = n.targets[0]
        cname = t.value.id
        val = origin(defs, n.value)
        if not isinstance(val, ast.Call):
            continue
        # a memo store is guarded by a membership test on the same key
        guarded = False
        cur = pm.get(n)
        while cur is not None and cur is not fn:
            if isinstance(cur, ast.If) and isinstance(cur.test, ast.Compare) and isinstance(cur.test.ops[0], (ast.NotIn, ast.In)) \
                    and norm(cur.test.comparators[0]) == cname:
                guarded = True
            cur = pm.get(cur)
        if not guarded:
            continue
        key_parts = _expand_key(defs, t.slice)
        s = MemoSite(fi, cname, "local", key_parts, n, n.value, val)
        key_txt = {norm(k) for k in key_parts}
        # loops enclosing the cache initialisation(s)
        def loops_of(node):
            out, c = [], pm.get(node)
            while c is not None and c is not fn:
                if isinstance(c, (ast.For, ast.While)):
                    out.append(c)
                c = pm.get(c)
            return out
        init_loops = [set(map(id, loops_of(st))) for st in caches[cname]]
        for a in list(val.args) + [k.value for k in val.keywords]:
            a0 = origin(defs, a) if not isinstance(a, ast.Name) else a
            txt = norm(a0)
            if isinstance(a0, ast.Constant):
                continue
            s.inputs.append((txt, a0))
            if txt in key_txt:
                s.covered.append(txt)
                continue
            if isinstance(a0, ast.Name):
                rebinds = [d for d in defs.get(a0.id, []) if d.kind != "param"]
                if not rebinds:
                    s.covered.append(f"{txt} (parameter, fixed for the cache's lifetime)")
                    continue
                ok_all = True
                # lazily initialised once per cache lifetime: `x = None` where the cache is created, `if x is None: x = ...` later
                resets = [d for d in rebinds if d.kind == "assign" and isinstance(d.value, ast.Constant) and d.value.value is None
                          and any(set(map(id, loops_of(d.stmt))) == il for il in init_loops)]
                for d in rebinds:
                    if d in resets:
                        continue
                    if resets:
                        par_ = pm.get(d.stmt)
                        if isinstance(par_, ast.If) and isinstance(par_.test, ast.Compare) and isinstance(par_.test.ops[0], ast.Is) \
                                and norm(par_.test.left) == a0.id and isinstance(par_.test.comparators[0], ast.Constant) and par_.test.comparators[0].value is None:
                            continue
                    lps = loops_of(d.stmt)
                    if not lps:
                        # re-bound outside any loop (e.g. before the cache exists): harmless if before the init
                        if all(d.stmt.lineno < st.lineno for st in caches[cname]):
                            continue
                        ok_all = False
                        break
                    L = lps[0]
                    # (i) the cache is re-created inside the same loop -> it never outlives one value of the input
                    if any(id(L) in il for il in init_loops):
                        continue
                    # (ii) a key component is advanced unconditionally in the same loop body
                    adv = False
                    for k in key_parts:
                        if isinstance(k, ast.Name):
                            for st in L.body:
                                if isinstance(st, ast.AugAssign) and norm(st.target) == k.id:
                                    adv = True
                                if isinstance(st, ast.Assign) and any(norm(x) == k.id for x in st.targets):
                                    # a fresh value each round is only sound if it is not an id() of a temporary
                                    v2 = st.value
                                    if isinstance(v2, ast.Call) and isinstance(v2.func, ast.Name) and v2.func.id == "id":
                                        s.problems.append(("id-of-temporary", v2,
                                                           f"`{k.id} = {norm(v2)[:60]}` stands in for `{txt}` in the key, but the id of a dropped temporary can be reused: "
                                                           f"entries computed for an earlier `{txt}` are then served for a later one"))
                                        adv = True
                                    else:
                                        adv = True
                    if not adv:
                        ok_all = False
                        break
                if ok_all:
                    s.covered.append(f"{txt} (represented in the key by a per-round counter / cache re-created per round)")
                    continue
                s.problems.append(("incomplete-key", a0, f"the cached value depends on `{txt}`, which changes while the cache lives, but the key does not reflect it"))
                continue
            if txt.startswith("self."):
                s.covered.append(txt + " (receiver state, fixed during the call)")
                continue
            s.problems.append(("incomplete-key", a0, f"the cached value depends on `{txt}` which is not part of the key"))
        for k in key_parts:
            if isinstance(k, ast.Call) and isinstance(k.func, ast.Name) and k.func.id == "id" and k.args \
                    and not isinstance(k.args[0], (ast.Name, ast.Attribute)):
                s.problems.append(("id-of-temporary", k, f"`{norm(k)[:60]}` takes the identity of a temporary; ids are reused once it is dropped"))
        sites.append(s)
    return sites


# --------------------------------------------------------------------------
# local caches whose key is a PROJECTION of a loop-variant object, while the cached value is computed from the whole object
#   key = tuple(d.get(a) for a in attrs) ; if key not in cache: cache[key] = [h for h in hosts if match(h, d)]
# Two objects with equal projections share the entry although `match` may read more of `d` than `attrs`.
# --------------------------------------------------------------------------
def projection_key_sites(fi: FuncInfo) -> List[Tuple[ast.AST, str]]:
    from ..core import parent_map
    from .provenance import all_roots
    fn = fi.node
    defs = local_defs(fn)
    pm = parent_map(fn)
    caches = {}
    for nm, ds in defs.items():
        for d in ds:
            if d.kind == "assign" and (isinstance(d.value, ast.Dict) and not d.value.keys
                                       or (isinstance(d.value, ast.Call) and dotted(d.value.func) in ("dict", "OrderedDict") and not d.value.args)):
                caches.setdefault(nm, []).append(d.stmt)
    out = []

    def loops_of(node):
        res, c = [], pm.get(node)
        while c is not None and c is not fn:
            if isinstance(c, (ast.For, ast.While)):
                res.append(c)
            c = pm.get(c)
        return res

    for n in walk_local(fn):
        stores = []
        if isinstance(n, ast.Assign) and len(n.targets) == 1 and isinstance(n.targets[0], ast.Subscript) and isinstance(n.targets[0].value, ast.Name) \
                and n.targets[0].value.id in caches:
            stores.append((n.targets[0].value.id, n.targets[0].slice, n.value))
        elif isinstance(n, ast.Call) and isinstance(n.func, ast.Attribute) and n.func.attr == "setdefault" and isinstance(n.func.value, ast.Name) \
                and n.func.value.id in caches and len(n.args) == 2:
            stores.append((n.func.value.id, n.args[0], n.args[1]))
        for cname, key, value in stores:
            my_loops = loops_of(n)
            init_loops = [set(map(id, loops_of(st))) for st in caches[cname]]
            # loops that run while one cache object lives
            live = [L for L in my_loops if not any(id(L) in il for il in init_loops)]
            if not live:
                continue
            variant = set()
            for L in live:
                for t in ast.walk(L.target) if isinstance(L, ast.For) else []:
                    if isinstance(t, ast.Name):
                        variant.add(t.id)
                for st in walk_local(L):
                    if isinstance(st, ast.Assign):
                        for t in st.targets:
                            for x in ast.walk(t):
                                if isinstance(x, ast.Name) and isinstance(x.ctx, ast.Store):
                                    variant.add(x.id)
            bound_in_value = {x.id for c in ast.walk(value) if isinstance(c, ast.comprehension) for x in ast.walk(c.target) if isinstance(x, ast.Name)}
            key_roots = all_roots(defs, key)
            whole_in_key = {r.id for r in key_roots if isinstance(r, ast.Name)}
            for r in key_roots:   # id(x) pins x
                if isinstance(r, ast.Call) and isinstance(r.func, ast.Name) and r.func.id == "id" and r.args and isinstance(r.args[0], ast.Name):
                    whole_in_key.add(r.args[0].id)
            projected = {}
            for r in key_roots:
                for c in ast.walk(r):
                    base = None
                    if isinstance(c, ast.Call) and isinstance(c.func, ast.Attribute) and c.func.attr == "get" and isinstance(c.func.value, ast.Name) and c.args:
                        base, k = c.func.value.id, c.args[0]
                    elif isinstance(c, ast.Subscript) and isinstance(c.value, ast.Name):
                        base, k = c.value.id, c.slice
                    if base is not None:
                        projected.setdefault(base, set()).add(norm(k))
            val_expr = origin(defs, value) if isinstance(value, ast.Name) else value
            nested = {f.name: f for f in ast.walk(fn) if isinstance(f, (ast.FunctionDef, ast.AsyncFunctionDef)) and f is not fn}
            key_labels = {}
            for r in key_roots:
                for nm_, labs in _reads_of_all(r).items():
                    key_labels.setdefault(nm_, set()).update(labs)
            for x_id in sorted({x.id for x in ast.walk(val_expr) if isinstance(x, ast.Name) and isinstance(x.ctx, ast.Load)}):
                if x_id in bound_in_value or x_id not in variant or x_id == cname:
                    continue
                if x_id in whole_in_key or x_id not in key_labels:
                    continue   # either pinned by the key, or not represented at all (that case belongs to local_memo_sites)
                have = key_labels[x_id]
                need = _reads_of(x_id, val_expr, nested)
                missing = sorted(l for l in need if l not in have and l not in ("?",))
                consts = [l for l in missing if l.startswith(("'", '"'))]
                if consts:
                    out.append((n, f"the key holds `{x_id}` only through {sorted(have)}, but the cached value also reads {consts} of it: "
                                   f"two different `{x_id}` with the same projection share one entry"))
                elif "?" in need or missing:
                    out.append((n, f"UNDECIDED: the key holds `{x_id}` only through {sorted(have)}; what the cached value reads of it is not visible"))
    return out


def _label(k: ast.AST, scope: ast.AST) -> str:
    """label of a projection key: a constant -> its repr; a name bound by a comprehension / for over a collection -> '*<collection>'; else '?'"""
    if isinstance(k, ast.Constant):
        return repr(k.value)
    if isinstance(k, ast.Name):
        for c in ast.walk(scope):
            if isinstance(c, ast.comprehension) and any(isinstance(t, ast.Name) and t.id == k.id for t in ast.walk(c.target)) and isinstance(c.target, ast.Name):
                return "*" + norm(c.iter)
            if isinstance(c, ast.For) and isinstance(c.target, ast.Name) and c.target.id == k.id:
                return "*" + norm(c.iter)
    return "?"


def _reads_of_all(tree: ast.AST):
    """{name: labels} for every `name.get(k)` / `name[k]` in tree"""
    out = {}
    for c in ast.walk(tree):
        if isinstance(c, ast.Call) and isinstance(c.func, ast.Attribute) and c.func.attr == "get" and isinstance(c.func.value, ast.Name) and c.args:
            out.setdefault(c.func.value.id, set()).add(_label(c.args[0], tree))
        elif isinstance(c, ast.Subscript) and isinstance(c.value, ast.Name):
            out.setdefault(c.value.id, set()).add(_label(c.slice, tree))
    return out


def _reads_of(name: str, tree: ast.AST, nested, depth: int = 2):
    """labels of everything `tree` reads of the mapping `name`: direct projections, and - when `name` is handed whole to a function defined in
    the same enclosing function - what that function reads of the corresponding parameter; '?' for any other use"""
    labels = set()
    par = {}
    for c in ast.walk(tree):
        for ch in ast.iter_child_nodes(c):
            par[ch] = c
    for x in ast.walk(tree):
        if not (isinstance(x, ast.Name) and x.id == name and isinstance(x.ctx, ast.Load)):
            continue
        p = par.get(x)
        if isinstance(p, ast.Attribute) and p.attr == "get" and isinstance(par.get(p), ast.Call) and par[p].func is p and par[p].args:
            labels.add(_label(par[p].args[0], tree))
        elif isinstance(p, ast.Subscript) and p.value is x:
            labels.add(_label(p.slice, tree))
        elif isinstance(p, ast.Call) and x in p.args and isinstance(p.func, ast.Name) and p.func.id in nested and depth > 0:
            f = nested[p.func.id]
            params = [a.arg for a in f.args.posonlyargs + f.args.args]
            i = p.args.index(x)
            if i < len(params):
                labels |= _reads_of(params[i], f, nested, depth - 1)
            else:
                labels.add("?")
        else:
            labels.add("?")
    return labels


# --------------------------------------------------------------------------
# instance-level memo vs. mutable receiver state
#   a method M answers from `self.F[key]` what it computed earlier from receiver fields R; another method m changes a field in R (assignment,
#   item store, mutator call) and does not drop the memo afterwards -> M keeps serving the verdict of a state that no longer exists
# --------------------------------------------------------------------------
MUTATORS = {"append", "add", "update", "extend", "insert", "pop", "popitem", "clear", "remove", "discard", "setdefault", "sort", "reverse", "__setitem__"}


def _self_fields_read(fn: ast.AST, methods, props, depth: int = 2, seen=None):
    seen = seen if seen is not None else set()
    out = set()
    for n in ast.walk(fn):
        if isinstance(n, ast.Attribute) and isinstance(n.value, ast.Name) and n.value.id == "self":
            if n.attr in props and depth > 0 and n.attr not in seen:
                seen.add(n.attr)
                out |= _self_fields_read(props[n.attr], methods, props, depth - 1, seen)
            elif n.attr in methods:
                if depth > 0 and n.attr not in seen:
                    seen.add(n.attr)
                    out |= _self_fields_read(methods[n.attr], methods, props, depth - 1, seen)
            elif isinstance(n.ctx, ast.Load):
                out.add(n.attr)
    return out


def stale_instance_memo(fi_methods: List[FuncInfo]) -> List[Tuple[FuncInfo, ast.AST, str]]:
    """fi_methods: the methods of ONE class.  Returns [(method that mutates, node, message)]."""
    from .provenance import all_roots
    methods, props = {}, {}
    for f in fi_methods:
        name = f.qual.split(".")[-1]
        if ".<locals>." in f.qual:
            continue
        deco = [norm(d) for d in f.node.decorator_list]
        (props if any(d in ("property", "cached_property", "functools.cached_property") for d in deco) else methods)[name] = f.node
    by_name = {f.qual.split(".")[-1]: f for f in fi_methods if ".<locals>." not in f.qual}
    out = []
    for mname, mnode in methods.items():
        if mname in ("__init__", "__post_init__"):
            continue
        # memo fields of this method: looked up and stored under a key in the same method, and a looked-up value can be returned
        looked, stored = {}, {}
        for n in ast.walk(mnode):
            if isinstance(n, ast.Call) and isinstance(n.func, ast.Attribute) and n.func.attr == "get" and n.args \
                    and isinstance(n.func.value, ast.Attribute) and isinstance(n.func.value.value, ast.Name) and n.func.value.value.id == "self":
                looked.setdefault(n.func.value.attr, []).append((n, n.args[0]))
            elif isinstance(n, ast.Subscript) and isinstance(n.ctx, ast.Load) and isinstance(n.value, ast.Attribute) and isinstance(n.value.value, ast.Name) \
                    and n.value.value.id == "self":
                looked.setdefault(n.value.attr, []).append((n, n.slice))
            elif isinstance(n, ast.Assign):
                for t in n.targets:
                    if isinstance(t, ast.Subscript) and isinstance(t.value, ast.Attribute) and isinstance(t.value.value, ast.Name) and t.value.value.id == "self":
                        stored.setdefault(t.value.attr, []).append((n, t.slice))
        defs = local_defs(mnode)
        rets = [r for r in walk_local(mnode) if isinstance(r, ast.Return) and r.value is not None]
        for F in sorted(set(looked) & set(stored)):
            lookups = {id(n) for n, _ in looked[F]}
            if not any(id(r) in lookups for ret in rets for r in all_roots(defs, ret.value)):
                continue
            key_fields = set()
            for _, k in looked[F] + stored[F]:
                for r in all_roots(defs, k):
                    for a in ast.walk(r):
                        if isinstance(a, ast.Attribute) and isinstance(a.value, ast.Name) and a.value.id == "self":
                            key_fields.add(a.attr)
            R = _self_fields_read(mnode, methods, props) - {F} - key_fields
            if not R:
                continue
            for oname, onode in methods.items():
                if oname in (mname, "__init__", "__post_init__"):
                    continue
                writes, clears = [], []
                for n in walk_local(onode):
                    tg = []
                    if isinstance(n, ast.Assign):
                        tg = n.targets
                    elif isinstance(n, ast.AugAssign):
                        tg = [n.target]
                    for t in tg:
                        base = t.value if isinstance(t, ast.Subscript) else t
                        if isinstance(base, ast.Attribute) and isinstance(base.value, ast.Name) and base.value.id == "self":
                            if base.attr == F and not isinstance(t, ast.Subscript):
                                clears.append(n)
                            elif base.attr in R:
                                writes.append((n, base.attr))
                    if isinstance(n, ast.Call) and isinstance(n.func, ast.Attribute):
                        recv = n.func.value
                        if isinstance(recv, ast.Attribute) and isinstance(recv.value, ast.Name) and recv.value.id == "self":
                            if recv.attr == F and n.func.attr == "clear":
                                clears.append(n)
                            elif recv.attr in R and n.func.attr in MUTATORS:
                                writes.append((n, recv.attr))
                        elif isinstance(recv, ast.Name) and recv.id == "self" and n.func.attr in methods and n.func.attr != mname:
                            # a callee that drops the memo counts as a clear at the call
                            callee = methods[n.func.attr]
                            if any(isinstance(c, ast.Call) and isinstance(c.func, ast.Attribute) and c.func.attr == "clear" and norm(c.func.value) == f"self.{F}"
                                   for c in ast.walk(callee)) or any(isinstance(a, ast.Assign) and any(norm(t) == f"self.{F}" for t in a.targets) for a in ast.walk(callee)):
                                clears.append(n)
                if not writes:
                    continue
                last_w = max(writes, key=lambda w: (w[0].lineno, w[0].col_offset))
                if not any((c.lineno, c.col_offset) > (last_w[0].lineno, last_w[0].col_offset) for c in clears):
                    out.append((by_name[oname], last_w[0], f"`{oname}` changes `self.{last_w[1]}`, which `{mname}` reads for the verdict it memoises in `self.{F}`, "
                                                           f"and does not drop the memo afterwards: `{mname}` keeps answering for a state that no longer exists"))
    return out


# --------------------------------------------------------------------------
# a memoising closure:  cache = {} ;  def f(a, b, c): key = (a, b) ; if key not in cache: cache[key] = g(c) ; return cache[key]
# every parameter of the closure that the cached value is computed from has to be in the key
# --------------------------------------------------------------------------
def closure_memo_sites(fi: FuncInfo) -> List[Tuple[ast.AST, str]]:
    from .provenance import all_roots
    fn = fi.node
    outer = local_defs(fn)
    caches = {nm for nm, ds in outer.items() for d in ds if d.kind == "assign" and (isinstance(d.value, ast.Dict) and not d.value.keys
                                                                                 or (isinstance(d.value, ast.Call) and dotted(d.value.func) in ("dict", "OrderedDict") and not d.value.args))}
    out = []
    for g in [x for x in ast.walk(fn) if isinstance(x, (ast.FunctionDef, ast.AsyncFunctionDef)) and x is not fn]:
        gd = local_defs(g)
        params = [a.arg for a in g.args.posonlyargs + g.args.args + g.args.kwonlyargs]
        for st in walk_local(g):
            if not (isinstance(st, ast.Assign) and len(st.targets) == 1 and isinstance(st.targets[0], ast.Subscript) and isinstance(st.targets[0].value, ast.Name)
                    and st.targets[0].value.id in caches and st.targets[0].value.id not in gd):
                continue
            cname = st.targets[0].value.id
            # the closure answers from the cache
            if not any(isinstance(r, ast.Return) and r.value is not None and any(isinstance(x, ast.Subscript) and isinstance(x.value, ast.Name) and x.value.id == cname
                                                                                   for x in all_roots(gd, r.value)) for r in walk_local(g)):
                continue

            def names_of(roots):
                return {n.id for r in roots for n in ast.walk(r) if isinstance(n, ast.Name)}
            in_key = names_of(all_roots(gd, st.targets[0].slice)) & set(params)
            in_val = names_of(all_roots(gd, st.value)) & set(params)
            # parameters tested on the way to the value (isinstance(per_eid, dict) ...) count as read
            for t in [n.test for n in walk_local(g) if isinstance(n, (ast.If, ast.IfExp))]:
                in_val |= {n.id for n in ast.walk(t) if isinstance(n, ast.Name)} & set(params)
            missing = sorted(in_val - in_key)
            if missing:
                out.append((st, f"`{g.name}` caches its result in `{cname}` under {sorted(in_key)} but computes it from {missing} as well: "
                                f"a later call with the same key and other {missing} is answered with the earlier value"))
    return out
