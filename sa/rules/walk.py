"""R5 - directed-walk rule on the bipartite species/reaction DiGraph.

networkx: on a DiGraph, ``G.edges(n)``, ``G.out_edges(n)``, ``G[n]``, ``G.adj[n]``,
``G.neighbors(n)`` and ``G.successors(n)`` enumerate **out-arcs** of ``n`` only;
``G.in_edges(n)`` / ``G.predecessors(n)`` enumerate in-arcs.  Edge tuples are
``(source, target[, data])``.

The writer table (which role constant sits on arcs into / out of a reaction
node) is extracted from ``hypergraph_to_bipartite``.
"""
from __future__ import annotations

import ast
from dataclasses import dataclass, field
from typing import Dict, List, Optional, Tuple

from ..core import AnalysisError, FuncInfo, Repo, call_name, dotted, is_const, local_defs, norm, origin, walk_local

CV = "synkit/CRN/Hypergraph/conversion.py"
OUT_METHODS = {"edges", "out_edges", "successors", "neighbors"}
IN_METHODS = {"in_edges", "predecessors"}
DIGRAPH_SOURCES = {"_as_bipartite", "hypergraph_to_bipartite", "to_bipartite"}


def writer_table(repo: Repo) -> Dict[str, dict]:
    """{'reactant': {'dir': 'in', 'stoich_key': 'stoich'}, 'product': {'dir': 'out', ...}}
    'in' = arc species -> reaction (an in-arc of the reaction node)."""
    fi = repo.func(CV, "hypergraph_to_bipartite")
    ctor = [n for n in walk_local(fi.node) if isinstance(n, ast.Assign) and isinstance(n.value, ast.Call) and dotted(n.value.func) in ("nx.DiGraph", "DiGraph")]
    rets = [n for n in walk_local(fi.node) if isinstance(n, ast.Return) and n.value is not None]
    if len(ctor) != 1 or not rets or any(norm(r.value) != norm(ctor[0].targets[0]) for r in rets):
        raise AnalysisError("hypergraph_to_bipartite no longer builds and returns one nx.DiGraph")
    table: Dict[str, dict] = {}
    for lp in [n for n in walk_local(fi.node) if isinstance(n, ast.For)]:
        it = norm(lp.iter)
        side = "reactants" if ".reactants.items()" in it else ("products" if ".products.items()" in it else None)
        if side is None:
            continue
        role = None
        keys = []
        for n in walk_local(lp):
            if isinstance(n, ast.Assign) and isinstance(n.targets[0], ast.Subscript) and isinstance(n.targets[0].slice, ast.Constant):
                k = n.targets[0].slice.value
                keys.append(k)
                if k == "role" and isinstance(n.value, ast.Constant):
                    role = n.value.value
        adds = [c for c in walk_local(lp) if isinstance(c, ast.Call) and call_name(c) == "add_edge"]
        if role is None or len(adds) != 1:
            raise AnalysisError(f"hypergraph_to_bipartite: cannot extract the arc written for {side}")
        a0, a1 = norm(adds[0].args[0]), norm(adds[0].args[1])
        # the reaction node variable is the one created by add_rxn_node
        defs = local_defs(fi.node)
        rxn_vars = {nm for nm, ds in defs.items() for d in ds if d.value is not None and isinstance(d.value, ast.Call)
                    and call_name(d.value) == "add_rxn_node"}
        if a1 in rxn_vars and a0 not in rxn_vars:
            direction = "in"
        elif a0 in rxn_vars and a1 not in rxn_vars:
            direction = "out"
        else:
            raise AnalysisError("hypergraph_to_bipartite: arc orientation not recognised")
        table[role] = {"dir": direction, "side": side, "keys": sorted(set(keys)), "line": adds[0].lineno}
    if set(table) != {"reactant", "product"}:
        raise AnalysisError(f"hypergraph_to_bipartite: role table incomplete: {table}")
    return table


@dataclass
class Walk:
    loop: ast.For
    graph: str
    node: str  # the node whose arcs are walked
    method: str
    direction: str  # 'out' | 'in'
    species_var: Optional[str]
    species_pos_ok: Optional[bool]
    data_var: Optional[str]
    roles_tested: List[Tuple[str, ast.AST]] = field(default_factory=list)


def walks(fi: FuncInfo, graph_names=("G",)) -> List[Walk]:
    out = []
    for lp in [n for n in walk_local(fi.node, into_nested=True) if isinstance(n, ast.For)]:
        it = lp.iter
        if not (isinstance(it, ast.Call) and isinstance(it.func, ast.Attribute) and isinstance(it.func.value, ast.Name)
                and it.func.value.id in graph_names and it.func.attr in (OUT_METHODS | IN_METHODS) and it.args):
            continue
        node = norm(it.args[0])
        meth = it.func.attr
        direction = "out" if meth in OUT_METHODS else "in"
        tg = lp.target
        sp, data, pos_ok = None, None, None
        if isinstance(tg, ast.Tuple) and len(tg.elts) >= 2:
            names = [norm(e) for e in tg.elts]
            data = names[2] if len(names) > 2 else None
            # which tuple member is used as the species end?
            used = _species_name_used(lp, names[:2])
            # endpoint-selection idiom:  s = v if u == r else u
            sel = _endpoint_selection(lp, names[:2], node)
            if sel:
                sp, pos_ok = sel, True
            elif used is not None:
                sp = used
                idx = names.index(used)
                want = 1 if direction == "out" else 0
                pos_ok = (idx == want)
        elif isinstance(tg, ast.Name):
            sp, pos_ok = tg.id, True
        w = Walk(lp, it.func.value.id, node, meth, direction, sp, pos_ok, data)
        for cmp_ in [n for n in walk_local(lp) if isinstance(n, ast.Compare)]:
            if len(cmp_.ops) == 1 and isinstance(cmp_.ops[0], (ast.Eq, ast.NotEq)):
                l, r = cmp_.left, cmp_.comparators[0]
                for a, b in ((l, r), (r, l)):
                    if isinstance(b, ast.Constant) and isinstance(b.value, str) and "role" in norm(a):
                        w.roles_tested.append((b.value, cmp_))
        # role bound to a variable first:  role = data.get("role") ... if role == "reactant"
        out.append(w)
    out.sort(key=lambda w: w.loop.lineno)
    return out


def _species_name_used(lp, names):
    cnt = {n: 0 for n in names if n != "_"}
    for n in walk_local(lp):
        if isinstance(n, ast.Name) and n.id in cnt and isinstance(n.ctx, ast.Load):
            cnt[n.id] += 1
    used = [n for n, c in cnt.items() if c > 0]
    if len(used) == 1:
        return used[0]
    return None


def _endpoint_selection(lp, names, node):
    """`s = v if u == r else u` -> 's' (selects the end that is not the walked node)"""
    for n in lp.body:
        if isinstance(n, ast.Assign) and isinstance(n.value, ast.IfExp) and isinstance(n.targets[0], ast.Name):
            t = n.value.test
            if isinstance(t, ast.Compare) and isinstance(t.ops[0], ast.Eq):
                l, r = norm(t.left), norm(t.comparators[0])
                if {l, r} & {node} and ({l, r} - {node}) <= set(names):
                    same = ({l, r} - {node}).pop() if ({l, r} - {node}) else None
                    other = [x for x in names if x != same]
                    if same and other and norm(n.value.body) == other[0] and norm(n.value.orelse) == same:
                        return n.targets[0].id
    return None


def graph_is_directed(repo: Repo, fi: FuncInfo, name: str = "G", depth: int = 2) -> Optional[bool]:
    """True if ``name`` in ``fi`` is known to be the bipartite DiGraph: assigned from
    a DiGraph source, or a parameter fed with one at every intra-module call site."""
    defs = local_defs(fi.node)
    ds = defs.get(name, [])
    for d in ds:
        if d.kind == "assign" and isinstance(d.value, ast.Call):
            f = call_name(d.value)
            if f in DIGRAPH_SOURCES or dotted(d.value.func) in ("nx.DiGraph", "DiGraph"):
                return True
    if any(d.kind == "param" for d in ds) and depth > 0:
        short = fi.qual.split(".")[-1]
        verdicts = []
        for other in fi.module.funcs.values():
            if other is fi:
                continue
            for c in [n for n in walk_local(other.node, into_nested=True) if isinstance(n, ast.Call) and call_name(n) == short]:
                params = fi.params
                off = 1 if params and params[0] in ("self", "cls") else 0
                idx = params.index(name) - off
                a = c.args[idx] if 0 <= idx < len(c.args) else None
                if a is None:
                    for k in c.keywords:
                        if k.arg == name:
                            a = k.value
                if isinstance(a, ast.Name):
                    verdicts.append(graph_is_directed(repo, other, a.id, depth - 1))
        if verdicts and all(v is True for v in verdicts):
            return True
        if verdicts:
            return None
        # no intra-module call site: the documented contract (bipartite DiGraph view) is assumed
        return True
    return None


def writer_sides_independent(rep, oid: str, required: bool = True):
    """view writer: a reaction's reactant entries and product entries are written independently of each other.  An arc that is only written when
    the species is NOT on the other side (`if s in e.reactants: .. elif s in e.products: ..`) gives a species that occurs on both sides of one
    reaction (a catalyst, an autocatalytic step) a single arc - every consumer of the view then sees another reaction."""
    from ..facts import guard_atoms, guards_of
    from ..core import alpha, parent_map
    fi = rep.f(CV, "hypergraph_to_bipartite")
    pm = parent_map(fi.node)
    bad = []
    n = 0
    for c in walk_local(fi.node, into_nested=True):
        if isinstance(c, ast.Call) and call_name(c) == "add_edge":
            n += 1
            for t, s in guard_atoms(guards_of(pm, c, fi.node, early=True)):
                if isinstance(t, ast.Compare) and len(t.ops) == 1 and isinstance(t.ops[0], (ast.In, ast.NotIn)):
                    other_side = norm(t.comparators[0]).split(".")[-1] in ("reactants", "products", "reactants.data", "products.data") or \
                        any(k in norm(t.comparators[0]) for k in (".reactants", ".products"))
                    negative = (isinstance(t.ops[0], ast.In) and not s) or (isinstance(t.ops[0], ast.NotIn) and s)
                    if other_side and negative:
                        bad.append((c, norm(t)))
    if n == 0 and not required:
        return  # the arcs are written somewhere the rule cannot see; properties that need the writer's table say so themselves
    rep.ob(oid, "R5", fi, (not bad) if n else None, alpha(bad[0][0], fi.node)[:80] if bad else f"{n} add_edge call(s)",
           "reactant arcs and product arcs of a reaction are written independently (a species on both sides gets both arcs)" +
           (f": this arc is written only when `{bad[0][1]}` fails" if bad else ""), node=bad[0][0] if bad else fi.node)


def view_is_complete(rep, oid: str):
    """what the CRN analyses read is the network itself: (a) the bipartite writer exports every stored reaction (no filter / early exit in its reaction
    loop), (b) `_as_bipartite` hands an input that already is a directed (multi-)graph through unchanged - it is returned as is or through nx.DiGraph(..)
    of an undirected graph - and otherwise the writer's export; a rebuilt copy of a MultiDiGraph merges parallel arcs (coefficients written as repeated
    arcs are lost)."""
    import ast as _ast
    from ..core import call_name, norm, parent_map, walk_local
    from ..facts import guards_of, returns_of
    CV = "synkit/CRN/Hypergraph/conversion.py"
    w = rep.f(CV, "hypergraph_to_bipartite")
    Hw = w.params[0]
    items = [l for l in walk_local(w.node) if isinstance(l, _ast.For) and f"{Hw}.edges.items()" in norm(l.iter)]
    cut = [n for l in items for n in walk_local(l) if isinstance(n, (_ast.Continue, _ast.Break))]
    rep.ob(oid, "R3b", w, len(items) == 1 and not cut, cut[0] if cut else (items[0].iter if items else "for"), "every stored reaction is exported to the bipartite view", node=cut[0] if cut else w.node)
    asb = rep.f(CV, "_as_bipartite")
    pm = parent_map(asb.node)
    P = asb.params[0]
    for r in [r for r in returns_of(asb.node) if r.value is not None]:
        leaves = []

        def _lv(e):
            if isinstance(e, _ast.IfExp):
                _lv(e.body)
                _lv(e.orelse)
            else:
                leaves.append(e)
        _lv(r.value)
        for leaf in leaves:
            if isinstance(leaf, _ast.Name) and leaf.id == P:
                ok = True
            elif isinstance(leaf, _ast.Call) and call_name(leaf) == "hypergraph_to_bipartite":
                ok = True
            elif isinstance(leaf, _ast.Call) and norm(leaf.func) in ("nx.DiGraph", "DiGraph") and leaf.args and norm(leaf.args[0]) == P:
                ok = True
            else:
                ok = None if isinstance(leaf, (_ast.Call, _ast.Name)) else False
                if isinstance(leaf, (_ast.Call, _ast.Name)):
                    # a graph rebuilt by some other routine: not understood - unless it is visibly a rebuild into a SIMPLE nx.DiGraph() filled arc by arc
                    # from the input with no exclusion of multigraph inputs: parallel arcs (coefficients written as repeated arcs) collapse into one
                    ok = None
                    if isinstance(leaf, _ast.Name):
                        from ..core import local_defs as _ld
                        dd = _ld(asb.node)
                        built = [d_ for d_ in dd.get(leaf.id, []) if d_.kind == "assign" and isinstance(d_.value, _ast.Call) and norm(d_.value.func) in ("nx.DiGraph", "DiGraph")
                                 and not d_.value.args]
                        fills = [c for c in walk_local(asb.node) if isinstance(c, _ast.Call) and call_name(c) == "add_edge" and norm(c.func.value) == leaf.id]
                        def _asserted(stmt):
                            """atoms known to hold where stmt runs: (text, holds?)"""
                            out_ = []
                            for t_, sn_ in guards_of(pm, stmt, asb.node):
                                if sn_:
                                    parts = t_.values if isinstance(t_, _ast.BoolOp) and isinstance(t_.op, _ast.And) else [t_]
                                    out_ += [(x, True) for x in parts]
                                else:
                                    parts = t_.values if isinstance(t_, _ast.BoolOp) and isinstance(t_.op, _ast.Or) else ([t_] if not isinstance(t_, _ast.BoolOp) else [])
                                    out_ += [(x, False) for x in parts]
                            res = []
                            for x, holds in out_:
                                while isinstance(x, _ast.UnaryOp) and isinstance(x.op, _ast.Not):
                                    x, holds = x.operand, not holds
                                res.append((norm(x), holds))
                            return res
                        multi_excluded = bool(built) and any(txt.endswith(".is_multigraph()") and holds is False for txt, holds in _asserted(built[0].stmt))
                        if built and fills and not multi_excluded:
                            ok = False
            rep.ob(oid, "R5", asb, ok, leaf, "_as_bipartite returns the caller's directed graph itself, nx.DiGraph(<undirected input>), or the writer's export", node=r)
