"""Overwrite-folding of the two sides of a reaction.

A table indexed by species (a dict, a matrix column, a per-reaction map) that receives a contribution from the reactant side AND
from the product side of the same reaction has to ACCUMULATE them (`+=`, `-=`, `t[k] = t.get(k, 0) + c`).  A plain store
(`t[k] = c`, `t.update({...})`, a dict comprehension over one side followed by `update` with the other) keeps only the last
contribution for a species that occurs on both sides - a catalyst, an autocatalytic step - and every number derived from the table
(net stoichiometry, rank, deficiency, token game) is wrong for exactly those networks."""
from __future__ import annotations

import ast
from typing import Dict, List, Optional, Tuple

from ..core import FuncInfo, norm, parent_map, walk_local
from ..facts import enclosing_loops, guards_of

R_WORDS = (".reactants", "reactant", ".pre.", ".pre)", "tail", "S_minus", "lhs")
P_WORDS = (".products", "product", ".post.", ".post)", "head", "S_plus", "rhs")


def _side_of_text(t: str) -> Optional[str]:
    r = any(w in t for w in (".reactants", ".pre.items", ".pre)", "tail.items", "tail)")) or t.endswith(".pre")
    p = any(w in t for w in (".products", ".post.items", ".post)", "head.items", "head)")) or t.endswith(".post")
    if r and not p:
        return "R"
    if p and not r:
        return "P"
    return None


def _side(pm, node, fn) -> Optional[str]:
    for lp in enclosing_loops(pm, node, fn):
        if not isinstance(lp, (ast.For, ast.AsyncFor)):
            continue
        s = _side_of_text(norm(lp.iter))
        if s:
            return s
    for t, sense in guards_of(pm, node, fn):
        for c in ast.walk(t):
            if isinstance(c, ast.Compare) and len(c.ops) == 1 and isinstance(c.ops[0], ast.Eq) and isinstance(c.comparators[0], ast.Constant) and sense:
                if c.comparators[0].value == "reactant":
                    return "R"
                if c.comparators[0].value == "product":
                    return "P"
    return None


def _reads_old(value: ast.AST, cont: str) -> bool:
    for n in ast.walk(value):
        if isinstance(n, ast.Subscript) and norm(n.value) == cont:
            return True
        if isinstance(n, ast.Call) and isinstance(n.func, ast.Attribute) and n.func.attr in ("get", "setdefault", "pop") and norm(n.func.value) == cont:
            return True
    return False


def _first_write_of_round(pm, fn, st, side, ws) -> bool:
    """a replacing store is harmless when nothing can be there yet: it is keyed by the variable of an enclosing loop that also encloses every
    store of the other side (one round per reaction), and it comes before all of them in that round"""
    if not (isinstance(st, ast.Assign) and isinstance(st.targets[0], ast.Subscript)):
        return False
    loops, cur = [], pm.get(st)
    while cur is not None and cur is not fn:
        if isinstance(cur, ast.For):
            loops.append(cur)
        cur = pm.get(cur)
    key_names = {n.id for n in ast.walk(st.targets[0].slice) if isinstance(n, ast.Name)}
    others = [o for s_, _, o in ws if s_ and s_ != side]
    same_side_acc = [o for s_, a_, o in ws if s_ == side and o is not st]
    for L in loops:
        lv = {n.id for n in ast.walk(L.target) if isinstance(n, ast.Name)}
        if not (lv & key_names):
            continue
        inside = lambda o: any(o is x for x in ast.walk(L))  # noqa: E731
        if others and all(inside(o) and (o.lineno, o.col_offset) > (st.lineno, st.col_offset) for o in others) and not same_side_acc:
            # the side's own loop must not revisit a key: its iterable is that side's mapping (.items() of a dict: distinct keys)
            return True
    return False


def overwrite_sites(fi: FuncInfo) -> List[Tuple[str, ast.AST, str]]:
    """[(container, offending store, explanation)]"""
    fn = fi.node
    pm = parent_map(fn)
    writes: Dict[str, List[Tuple[Optional[str], bool, ast.AST]]] = {}
    for st in walk_local(fn):
        tg0 = st.target if isinstance(st, ast.AugAssign) else (st.targets[0] if isinstance(st, ast.Assign) and len(st.targets) == 1 else None)
        if isinstance(tg0, ast.Subscript) and isinstance(tg0.slice, ast.Constant):
            continue  # attribute dicts keyed by a literal ('role', 'stoich'), not tables indexed by species
        if isinstance(st, ast.AugAssign) and isinstance(st.target, ast.Subscript) and isinstance(st.op, (ast.Add, ast.Sub)):
            writes.setdefault(norm(st.target.value), []).append((_side(pm, st, fn), True, st))
        elif isinstance(st, ast.Assign) and len(st.targets) == 1 and isinstance(st.targets[0], ast.Subscript):
            cont = norm(st.targets[0].value)
            writes.setdefault(cont, []).append((_side(pm, st, fn), _reads_old(st.value, cont), st))
        elif isinstance(st, ast.Assign) and len(st.targets) == 1 and isinstance(st.targets[0], ast.Name) and isinstance(st.value, ast.DictComp):
            s = _side_of_text(norm(st.value.generators[0].iter))
            if s:
                writes.setdefault(st.targets[0].id, []).append((s, True, st))  # initialisation from one side
        elif isinstance(st, ast.AnnAssign) and isinstance(st.target, ast.Name) and isinstance(st.value, ast.DictComp):
            s = _side_of_text(norm(st.value.generators[0].iter))
            if s:
                writes.setdefault(st.target.id, []).append((s, True, st))
        elif isinstance(st, ast.Expr) and isinstance(st.value, ast.Call) and isinstance(st.value.func, ast.Attribute) and st.value.func.attr == "update" and st.value.args:
            cont = norm(st.value.func.value)
            a = st.value.args[0]
            s = _side_of_text(norm(a)) or _side(pm, st, fn)
            if s:
                writes.setdefault(cont, []).append((s, False, st))
    out = []
    for cont, ws in writes.items():
        sides = {s for s, _, _ in ws if s}
        if sides >= {"R", "P"}:
            for s, acc, st in ws:
                if s and not acc and _first_write_of_round(pm, fn, st, s, ws):
                    continue
                if s and not acc:
                    out.append((cont, st, f"`{cont}` receives the reactant side and the product side of a reaction; this store replaces instead of accumulating"))
    return out


def check(rep, oid: str, rels, consequence: str, min_funcs: int = 5):
    """one obligation per offending store in the given modules; one positive obligation if there is none"""
    n, bad = 0, []
    for rel in rels:
        mi = rep.repo.module(rel)
        for fi in mi.funcs.values():
            n += 1
            for cont, st, why in overwrite_sites(fi):
                bad.append((fi, cont, st, why))
    from ..core import alpha
    for fi, cont, st, why in bad:
        rep.touch(fi)
        rep.ob(oid, "R15", fi, False, alpha(st, fi.node), why + ": for a species on both sides of one reaction (catalyst, autocatalysis) only the last side survives - " + consequence, node=st)
    if not bad:
        rep.ob(oid, "R15", f"{rels[0]}:<module>", True, f"no overwrite-folding store in {n} functions of {len(rels)} module(s)",
               "tables that receive both sides of a reaction accumulate the contributions (a species on both sides keeps both)")
    rep.need("R15", n, min_funcs, "functions scanned for overwrite-folding")
