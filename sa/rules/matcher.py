"""R2 matcher-role rule and R13 predicate normalisation.

networkx contract (networkx/algorithms/isomorphism/vf2userfunc.py, isomorphvf2.py):
  GraphMatcher(G1, G2, node_match, edge_match)
  subgraph_is_isomorphic / subgraph_isomorphisms_iter / subgraph_is_monomorphic /
  subgraph_monomorphisms_iter  ask whether **G2 embeds in G1**; the dicts yielded
  map **G1 nodes -> G2 nodes**;  node_match(n1_attrs, n2_attrs) receives the G1
  node's attributes first.  `subgraph_isomorphisms_iter` is the *induced* variant,
  `subgraph_monomorphisms_iter` the non-induced one.
"""
from __future__ import annotations

import ast
import itertools
from dataclasses import dataclass, field
from typing import Dict, List, Optional, Set, Tuple

from ..absval import Undecided, eval_expr, eval_function
from ..core import (FuncInfo, call_name, const, dotted, kwarg, local_defs, norm, origin, parent_map,
                    walk_local, Def)
from ..facts import guards_of

MATCHER_CLASSES = {"GraphMatcher", "DiGraphMatcher", "MultiGraphMatcher", "MultiDiGraphMatcher"}
SUB_METHODS = {"subgraph_is_isomorphic", "subgraph_isomorphisms_iter", "subgraph_is_monomorphic",
               "subgraph_monomorphisms_iter"}
ISO_METHODS = {"is_isomorphic", "isomorphisms_iter"}
INDUCED = {"subgraph_is_isomorphic", "subgraph_isomorphisms_iter"}
MONO = {"subgraph_is_monomorphic", "subgraph_monomorphisms_iter"}

HOST_NAMES = {"host", "parent_graph", "larger_graph", "host_explicit", "host_g", "G_host", "host_graph"}
PATTERN_NAMES = {"pattern", "child_graph", "sub_pat", "candidate_subgraph", "pattern_graph", "pat", "query"}


@dataclass
class Site:
    fi: FuncInfo
    call: ast.Call
    var: Optional[str]  # name the matcher is bound to (None: used inline)
    g1: ast.AST
    g2: ast.AST
    node_match: Optional[ast.AST]
    edge_match: Optional[ast.AST]
    methods: List[Tuple[str, ast.Call]] = field(default_factory=list)


def is_matcher_ctor(fi: FuncInfo, c: ast.Call) -> bool:
    f = c.func
    name = f.id if isinstance(f, ast.Name) else (f.attr if isinstance(f, ast.Attribute) else "")
    if name in MATCHER_CLASSES:
        return True
    imp = fi.module.imports.get(name, "")
    return imp.split(".")[-1] in MATCHER_CLASSES and "isomorphism" in imp


def sites(fi: FuncInfo) -> List[Site]:
    out = []
    pm = parent_map(fi.node)
    for c in [n for n in walk_local(fi.node, into_nested=True) if isinstance(n, ast.Call)]:
        if not is_matcher_ctor(fi, c):
            continue
        g1 = c.args[0] if len(c.args) > 0 else kwarg(c, "G1")
        g2 = c.args[1] if len(c.args) > 1 else kwarg(c, "G2")
        if g1 is None or g2 is None:
            continue
        nm = kwarg(c, "node_match") or (c.args[2] if len(c.args) > 2 else None)
        em = kwarg(c, "edge_match") or (c.args[3] if len(c.args) > 3 else None)
        par = pm.get(c)
        var = None
        if isinstance(par, ast.Assign) and len(par.targets) == 1 and isinstance(par.targets[0], ast.Name):
            var = par.targets[0].id
        s = Site(fi, c, var, g1, g2, nm, em)
        if var:
            for m in [n for n in walk_local(fi.node, into_nested=True) if isinstance(n, ast.Call)]:
                if isinstance(m.func, ast.Attribute) and isinstance(m.func.value, ast.Name) and m.func.value.id == var \
                        and (m.func.attr in SUB_METHODS or m.func.attr in ISO_METHODS):
                    s.methods.append((m.func.attr, m))
        elif isinstance(par, ast.Attribute) and isinstance(pm.get(par), ast.Call):
            s.methods.append((par.attr, pm[par]))
        s.methods.sort(key=lambda t: (t[1].lineno, t[1].col_offset))
        out.append(s)
    out.sort(key=lambda s: (s.call.lineno, s.call.col_offset))
    return out


# --------------------------------------------------------------------------
# roles
# --------------------------------------------------------------------------
def role(fi: FuncInfo, expr: ast.AST, defs=None, extra_host=(), extra_pattern=()) -> str:
    """HOST / PATTERN / BOTH / UNKNOWN: which role-named parameters ``expr``
    is derived from (def-use closure over local assignments and loop targets)."""
    defs = defs if defs is not None else local_defs(fi.node, into_nested=True)
    hosts = HOST_NAMES | set(extra_host)
    pats = PATTERN_NAMES | set(extra_pattern)
    seen: Set[str] = set()
    roles: Set[str] = set()
    def carriers(e):
        """names that can carry the graph: subscript indices and comprehension
        filters only select, they do not supply the object"""
        out, stack = [], [(e, frozenset())]
        while stack:
            n, bound = stack.pop()
            if isinstance(n, ast.Name):
                if n.id not in bound:
                    out.append(n.id)
            elif isinstance(n, ast.Subscript):
                stack.append((n.value, bound))
            elif isinstance(n, (ast.ListComp, ast.SetComp, ast.GeneratorExp)):
                # comprehension targets are local: their origin is the iterable
                b2 = set(bound)
                for g in n.generators:
                    stack.append((g.iter, frozenset(b2)))
                    b2 |= {x.id for x in ast.walk(g.target) if isinstance(x, ast.Name)}
                stack.append((n.elt, frozenset(b2)))
            else:
                stack += [(c, bound) for c in ast.iter_child_nodes(n)]
        return out

    work = carriers(expr)
    while work:
        nm = work.pop()
        if nm in seen:
            continue
        seen.add(nm)
        if nm in hosts:
            roles.add("HOST")
            continue
        if nm in pats:
            roles.add("PATTERN")
            continue
        for d in defs.get(nm, []):
            if d.value is not None and d.kind != "param":
                # an index variable of enumerate(...) etc. carries no graph
                work += carriers(d.value)
    if roles == {"HOST"}:
        return "HOST"
    if roles == {"PATTERN"}:
        return "PATTERN"
    if roles == {"HOST", "PATTERN"}:
        return "BOTH"
    return "UNKNOWN"


def equal_size_guarded(fi: FuncInfo, node: ast.AST, a: ast.AST, b: ast.AST) -> bool:
    """``node`` executes only when number_of_nodes of the two graphs are equal."""
    pm = parent_map(fi.node)
    ta, tb = norm(a), norm(b)
    fdefs = local_defs(fi.node)

    def _expand(t, depth=3):
        """a test through single-assigned boolean flags: `same = a == b and c == d` ... `if same:`"""
        if depth > 0 and isinstance(t, ast.Name) and len(fdefs.get(t.id, [])) == 1 and fdefs[t.id][0].kind == "assign" and fdefs[t.id][0].value is not None:
            return _expand(fdefs[t.id][0].value, depth - 1)
        if isinstance(t, ast.BoolOp):
            return ast.BoolOp(op=t.op, values=[_expand(v, depth) for v in t.values])
        if isinstance(t, ast.UnaryOp) and isinstance(t.op, ast.Not):
            return ast.UnaryOp(op=t.op, operand=_expand(t.operand, depth))
        return t
    for test, sense in guards_of(pm, node, fi.node):
        test = _expand(test)
        for cmp_ in [n for n in ast.walk(test) if isinstance(n, ast.Compare)]:
            if len(cmp_.ops) == 1:
                l, r = norm(cmp_.left), norm(cmp_.comparators[0])
                pair = {l, r}
                want = {f"{ta}.number_of_nodes()", f"{tb}.number_of_nodes()"}
                if pair == want or pair == {f"len({ta})", f"len({tb})"} or pair == {f"len({ta}.nodes)", f"len({tb}.nodes)"}:
                    # reachable only in a conjunction taken positively, or the `else` of a !=
                    if isinstance(cmp_.ops[0], ast.Eq) and sense and _conj_member(test, cmp_):
                        return True
                    if isinstance(cmp_.ops[0], ast.NotEq) and not sense and _disj_member(test, cmp_):
                        return True
    return False


def _conj_member(test, node) -> bool:
    if test is node:
        return True
    if isinstance(test, ast.BoolOp) and isinstance(test.op, ast.And):
        return any(_conj_member(v, node) for v in test.values)
    return False


def _disj_member(test, node) -> bool:
    if test is node:
        return True
    if isinstance(test, ast.BoolOp) and isinstance(test.op, ast.Or):
        return any(_disj_member(v, node) for v in test.values)
    return False


def inverted_dict(node: ast.AST) -> Optional[bool]:
    """For ``{k: v for a, b in X.items()}``: True if it swaps (k is b, v is a),
    False if it copies (k is a, v is b), None if not of that form."""
    if isinstance(node, ast.DictComp) and len(node.generators) == 1:
        g = node.generators[0]
        if isinstance(g.target, ast.Tuple) and len(g.target.elts) == 2 and not g.ifs:
            a, b = (norm(e) for e in g.target.elts)
            k, v = norm(node.key), norm(node.value)
            if (k, v) == (b, a):
                return True
            if (k, v) == (a, b):
                return False
    return None


# --------------------------------------------------------------------------
# R13: normal form of a match predicate
# --------------------------------------------------------------------------
@dataclass
class PredForm:
    """conjunction of atomic constraints recognised in a predicate closure"""
    eq_over: Set[str]  # names of the attribute lists compared for equality (e.g. {'node_attrs'})
    ge: List[Tuple[str, int, int]]  # (attribute, index of the >=-left parameter, index of the right one)
    other: List[str]  # recognised-but-unexpected atoms (wrong operator etc.)
    exact: bool  # truth table equals the conjunction of the atoms above
    params: List[str]
    detail: str = ""


def _get_key(call: ast.AST):
    if isinstance(call, ast.Call) and call_name(call) == "get" and call.args and isinstance(call.args[0], (ast.Constant, ast.Name)):
        base = dotted(call.func.value)
        key = call.args[0].value if isinstance(call.args[0], ast.Constant) else "$" + call.args[0].id
        return base, key
    if isinstance(call, ast.Subscript) and isinstance(call.slice, (ast.Constant, ast.Name)):
        base = dotted(call.value)
        key = call.slice.value if isinstance(call.slice, ast.Constant) else "$" + call.slice.id
        return base, key
    return None


def _atoms(fn: ast.AST, params: List[str], aliases: Dict[str, str]):
    """Atoms of a predicate body: (node, kind, payload).
       kind 'eqall'  payload (list_name, negated)  for all(a.get(k)==b.get(k) for k in L) / any(.. != ..)
       kind 'eqloop' handled separately
       kind 'cmp'    payload (attr, op, left_param_idx, right_param_idx)"""
    atoms = []
    inside = set()

    def pidx(name):
        name = aliases.get(name, name)
        return params.index(name) if name in params else None

    for n in ast.walk(fn):
        if isinstance(n, ast.Call) and isinstance(n.func, ast.Name) and n.func.id in ("all", "any") and n.args \
                and isinstance(n.args[0], ast.GeneratorExp) and len(n.args[0].generators) == 1:
            g = n.args[0]
            gen = g.generators[0]
            elt = g.elt
            if isinstance(elt, ast.Compare) and len(elt.ops) == 1 and isinstance(gen.target, ast.Name) and not gen.ifs:
                l, r = _get_key(elt.left), _get_key(elt.comparators[0])
                if l and r and l[1] == r[1] == "$" + gen.target.id and pidx(l[0]) is not None and pidx(r[0]) is not None \
                        and pidx(l[0]) != pidx(r[0]):
                    lst = norm(gen.iter)
                    if n.func.id == "all" and isinstance(elt.ops[0], ast.Eq):
                        atoms.append((n, "eqall", (lst, False)))
                    elif n.func.id == "any" and isinstance(elt.ops[0], ast.NotEq):
                        atoms.append((n, "eqall", (lst, True)))
                    else:
                        atoms.append((n, "odd", norm(n)))
                    for sub in ast.walk(n):
                        inside.add(id(sub))
    # any other all(..)/any(..) over a generator (a filter on the compared values, an indirection through a local generator, a compound
    # element) is a comparison the rule cannot name: it becomes an opaque atom and is reported as "other"
    for n in ast.walk(fn):
        if id(n) in inside:
            continue
        if isinstance(n, ast.Call) and isinstance(n.func, ast.Name) and n.func.id in ("all", "any") and n.args and isinstance(n.args[0], (ast.GeneratorExp, ast.ListComp)):
            atoms.append((n, "odd", "unrecognised quantified comparison: " + norm(n)[:80]))
            for sub in ast.walk(n):
                inside.add(id(sub))
    for n in ast.walk(fn):
        if id(n) in inside:
            continue
        if isinstance(n, ast.Compare) and len(n.ops) == 1:
            l, r = _get_key(n.left), _get_key(n.comparators[0])
            if l and r and l[1] == r[1] and not str(l[1]).startswith("$") and pidx(l[0]) is not None and pidx(r[0]) is not None:
                atoms.append((n, "cmp", (l[1], type(n.ops[0]).__name__, pidx(l[0]), pidx(r[0]))))
    return atoms


def normalise_predicate(fn: ast.AST) -> PredForm:
    """Normalise ``def pred(a, b, ...)`` / lambda to a conjunction of atoms and
    verify on the full truth table that the body *is* that conjunction."""
    if isinstance(fn, ast.Lambda):
        params = [a.arg for a in fn.args.args]
        body = [ast.Return(value=fn.body)]
    else:
        params = [a.arg for a in fn.args.args]
        body = list(fn.body)
    # rewrite `for k in L: if a.get(k) != b.get(k): return False` loops into an eqall atom
    eq_over, ge, other = set(), [], []
    new_body = []
    loop_atoms = {}
    for st in body:
        if isinstance(st, ast.For) and isinstance(st.target, ast.Name) and len(st.body) == 1 and isinstance(st.body[0], ast.If) \
                and not st.orelse and not st.body[0].orelse and len(st.body[0].body) == 1 \
                and isinstance(st.body[0].body[0], ast.Return) and isinstance(st.body[0].body[0].value, ast.Constant) \
                and st.body[0].body[0].value.value is False:
            t = st.body[0].test
            if isinstance(t, ast.Compare) and len(t.ops) == 1 and isinstance(t.ops[0], ast.NotEq):
                l, r = _get_key(t.left), _get_key(t.comparators[0])
                if l and r and l[1] == r[1] == "$" + st.target.id and l[0] in params and r[0] in params and l[0] != r[0]:
                    lst = norm(st.iter)
                    key = f"__eqall_{len(loop_atoms)}__"
                    loop_atoms[key] = lst
                    # if not eqall: return False
                    new_body.append(ast.If(test=ast.UnaryOp(op=ast.Not(), operand=ast.Name(id=key, ctx=ast.Load())),
                                           body=[ast.Return(value=ast.Constant(value=False))], orelse=[]))
                    continue
        new_body.append(st)
    fake = ast.FunctionDef(name="p", args=None, body=new_body, decorator_list=[], lineno=0)
    atoms = _atoms(ast.Module(body=new_body, type_ignores=[]), params, {})
    # canonical variables
    var_of = {}  # atom text -> (canonical var, negated)
    canon = []
    for key, lst in loop_atoms.items():
        cv = ("eq", lst)
        var_of[key] = (cv, False)
        if cv not in canon:
            canon.append(cv)
        eq_over.add(lst)
    for node, kind, payload in atoms:
        if kind == "eqall":
            lst, neg = payload
            cv = ("eq", lst)
            var_of[norm(node)] = (cv, neg)
            if cv not in canon:
                canon.append(cv)
            eq_over.add(lst)
        elif kind == "cmp":
            attr, op, li, ri = payload
            if op == "GtE":
                cv = ("ge", attr, li, ri)
                var_of[norm(node)] = (cv, False)
                if cv not in canon:
                    canon.append(cv)
                    ge.append((attr, li, ri))
            elif op == "LtE":
                cv = ("ge", attr, ri, li)
                var_of[norm(node)] = (cv, False)
                if cv not in canon:
                    canon.append(cv)
                    ge.append((attr, ri, li))
            else:
                other.append(f"{attr}:{op}")
                cv = ("odd", norm(node))
                var_of[norm(node)] = (cv, False)
                if cv not in canon:
                    canon.append(cv)
        else:
            other.append(str(payload))
            cv = ("odd", norm(node))
            var_of[norm(node)] = (cv, False)
            if cv not in canon:
                canon.append(cv)
    exact, detail = True, ""
    try:
        for vals in itertools.product((False, True), repeat=len(canon)):
            assign = dict(zip(canon, vals))
            env = {}
            for txt, (cv, neg) in var_of.items():
                env[txt] = (not assign[cv]) if neg else assign[cv]
            got = bool(eval_function(fake, env))
            want = all(vals)
            if got != want:
                exact = False
                detail = f"predicate is not the conjunction of its atoms at {dict((str(k), v) for k, v in assign.items())}: got {got}"
                break
    except Undecided as exc:
        raise Undecided(f"predicate body not modelled: {exc}")
    return PredForm(eq_over, ge, other, exact, params, detail)


def find_closure(fi: FuncInfo, expr: ast.AST) -> Optional[ast.AST]:
    """FunctionDef/Lambda that ``expr`` (a Name or Lambda) denotes inside ``fi``."""
    if isinstance(expr, ast.Lambda):
        return expr
    if isinstance(expr, ast.Name):
        cands = [n for n in ast.walk(fi.node) if isinstance(n, ast.FunctionDef) and n.name == expr.id and n is not fi.node]
        if cands:
            # nearest preceding definition
            return sorted(cands, key=lambda n: n.lineno)[-1]
        defs = local_defs(fi.node, into_nested=True)
        o = origin(defs, expr)
        if isinstance(o, ast.Lambda):
            return o
        if isinstance(o, ast.Name) and o.id != expr.id:
            # an alias of a nested function (e.g. `nm, em = (node_match, edge_match)` left by a substituted factory)
            cands = [n for n in ast.walk(fi.node) if isinstance(n, ast.FunctionDef) and n.name == o.id and n is not fi.node]
            if cands:
                return sorted(cands, key=lambda n: n.lineno)[-1]
        # a closure handed out by a factory of the same module:  nm, em = <factory>(...)  with  def <factory>(..): def nm(..) ..; def em(..) ..; return nm, em
        for d_ in defs.get(expr.id, []):
            if isinstance(d_.value, ast.Call):
                fname = d_.value.func.attr if isinstance(d_.value.func, ast.Attribute) else (d_.value.func.id if isinstance(d_.value.func, ast.Name) else None)
                for q, other in fi.module.funcs.items():
                    if q.split(".")[-1] != fname or other is fi:
                        continue
                    rets = [r for r in walk_local(other.node) if isinstance(r, ast.Return) and r.value is not None]
                    if len(rets) != 1:
                        continue
                    rv = rets[0].value
                    elt = rv.elts[d_.index[0]] if (d_.index is not None and isinstance(rv, ast.Tuple) and len(d_.index) == 1 and d_.index[0] < len(rv.elts)) else (rv if d_.index is None else None)
                    if isinstance(elt, ast.Lambda):
                        return elt
                    if isinstance(elt, ast.Name):
                        inner = [n for n in ast.walk(other.node) if isinstance(n, ast.FunctionDef) and n.name == elt.id and n is not other.node]
                        if inner:
                            return inner[-1]
    return None
