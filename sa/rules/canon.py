"""R14 relabelling bijection, R4 digest determinism, R16 exhaustive IR search shape."""
from __future__ import annotations

import ast
from typing import Dict, List, Optional, Tuple

from ..absval import Lin, Undecided, linform
from ..core import FuncInfo, call_name, dotted, kwarg, local_defs, norm, origin, parent_map, walk_local
from ..facts import guards_of, enclosing_loops


# --------------------------------------------------------------------------
# R14
# --------------------------------------------------------------------------
def classify_order(defs, expr: ast.AST, graph_names=("g", "G"), depth: int = 0) -> Tuple[str, str]:
    """(class, reason) with class in
       BIJECTIVE   every node exactly once
       DUPLICATE   some node provably occurs twice
       UNKNOWN"""
    e = origin(defs, expr)
    t = norm(e).replace(" ", "")
    if isinstance(e, ast.Call) and isinstance(e.func, ast.Name) and e.func.id == "sorted" and e.args:
        inner = e.args[0]
        it = norm(inner).replace(" ", "")
        if any(it in (g, f"{g}.nodes", f"{g}.nodes()", f"{g}.nodes(data=True)") for g in graph_names):
            return "BIJECTIVE", f"sorted({it}) lists every node once"
        c, why = classify_order(defs, inner, graph_names, depth + 1)
        return c, f"sorted(..) of: {why}"
    if isinstance(e, ast.Call) and isinstance(e.func, ast.Name) and e.func.id == "list" and e.args:
        a = e.args[0]
        if isinstance(a, ast.Call) and norm(a.func) == "dict.fromkeys" and a.args:
            c, why = classify_order(defs, a.args[0], graph_names, depth + 1)
            if c in ("BIJECTIVE", "DUPLICATE"):
                return "BIJECTIVE", f"dict.fromkeys(..) removes the duplicates of: {why}"
            return "UNKNOWN", f"dict.fromkeys over: {why}"
        return classify_order(defs, a, graph_names, depth + 1)
    if isinstance(e, ast.ListComp) and len(e.generators) == 2:
        g0, g1 = e.generators
        if norm(g1.iter) == norm(g0.target) and norm(e.elt) == norm(g1.target) and not g0.ifs and not g1.ifs:
            return "BIJECTIVE", f"flatten of the (discrete) partition {norm(g0.iter)}: every node once"
    if isinstance(e, ast.BinOp) and isinstance(e.op, ast.Add):
        l, wl = classify_order(defs, e.left, graph_names, depth + 1)
        r, wr = classify_order(defs, e.right, graph_names, depth + 1)
        if r == "BIJECTIVE":
            # left operand: the individualised prefix consists of nodes of the same graph
            return "DUPLICATE", f"{norm(e.left)} + <all nodes>: every node of the left operand occurs twice"
        if l == "BIJECTIVE":
            return "DUPLICATE", f"<all nodes> + {norm(e.right)}: every node of the right operand occurs twice"
        return "UNKNOWN", f"concatenation {wl} + {wr}"
    if isinstance(e, ast.Subscript) and isinstance(e.slice, ast.Constant) and isinstance(e.slice.value, str):
        # best["perm"]: follow the stores into that key
        return "LOOKUP", norm(e)
    return "UNKNOWN", f"order expression not recognised: {norm(e)[:60]}"


def mapping_sites(fi: FuncInfo) -> List[Tuple[ast.DictComp, ast.AST]]:
    """`{old: i + 1 for i, old in enumerate(X)}` dict comprehensions"""
    out = []
    for n in walk_local(fi.node):
        if isinstance(n, ast.DictComp) and len(n.generators) == 1:
            g = n.generators[0]
            if isinstance(g.iter, ast.Call) and call_name(g.iter) == "enumerate" and g.iter.args:
                out.append((n, g.iter.args[0]))
    return out


def offset_of(dc: ast.DictComp) -> Optional[int]:
    g = dc.generators[0]
    idx = norm(g.target.elts[0]) if isinstance(g.target, ast.Tuple) else None
    try:
        lf = linform(dc.value, lambda n: "i" if norm(n) == idx else None)
        if lf.get("i") == 1:
            # enumerate(X, start=k) / enumerate(X, k): positions are counted from k
            st = kwarg(g.iter, "start") if isinstance(g.iter, ast.Call) else None
            if st is None and isinstance(g.iter, ast.Call) and len(g.iter.args) > 1:
                st = g.iter.args[1]
            base = 0
            if st is not None:
                if not (isinstance(st, ast.Constant) and isinstance(st.value, int)):
                    return None
                base = st.value
            return int(lf.get(1, 0)) + base
    except Undecided:
        pass
    return None


# --------------------------------------------------------------------------
# R16  individualisation-refinement search
# --------------------------------------------------------------------------
def ir_search_shape(fi: FuncInfo, partial_bound_ok: Optional[bool] = None):
    """list of (obligation, ok, construct, what, node); local variable names are discovered, never assumed"""
    from ..pattern import pmatch, pfind
    fn = fi.node
    pm = parent_map(fn)
    defs = local_defs(fn)
    obs = []
    me = fi.qual.split(".")[-1]
    params = fi.params
    part = params[2] if len(params) > 2 else "part"
    prefix = params[3] if len(params) > 3 else "prefix"
    best = params[4] if len(params) > 4 else "best"
    ties = params[5] if len(params) > 5 else "perms"
    loops = [l for l in walk_local(fn) if isinstance(l, ast.For)]
    branch = None
    for l in loops:
        if any(isinstance(c, ast.Call) and call_name(c) == me for c in walk_local(l)):
            branch = l
    if branch is None:
        obs.append(("branch", None, "for v in cell", "branching loop not found", fn))
        return obs
    it = origin(defs, branch.iter)
    base = it
    for _ in range(3):
        if isinstance(base, ast.Call) and isinstance(base.func, ast.Name) and base.func.id in ("sorted", "list") and base.args:
            base = origin(defs, base.args[0])
    mcell = pmatch("$p[$i]", base, {"p": part})
    ok_cell = mcell is not None
    obs.append(("branch", ok_cell, branch.iter, "the branching loop visits every member of the chosen cell", branch))
    ok_idx = False
    if mcell:
        idx = origin(defs, ast.Name(id=mcell["i"], ctx=ast.Load()))
        ok_idx = pmatch("next(($k for $k, $c in enumerate($p) if len($c) > 1))", idx, {"p": part}) is not None
        obs.append(("target-cell", ok_idx, idx, "the target cell is the first non-singleton cell of the (canonically ordered) partition", branch))
    for ex in [n for n in walk_local(branch) if isinstance(n, (ast.Break, ast.Continue, ast.Return))]:
        gs = guards_of(pm, ex, branch)
        txt = [norm(t) for t, s in gs]
        if isinstance(ex, ast.Return):
            ok = norm(ex.value) == "True" and any(f"{me}(" in t for t in txt)
            obs.append(("exit", ok, f"return {norm(ex.value)} under {[t[:40] for t in txt]}", "the only early exit of the branching loop propagates an explicit early stop", ex))
        elif isinstance(ex, ast.Continue):
            recognised = len(gs) == 1 and gs[0][1] and pmatch("$b['label'] is not None and $pl > $b['label']", gs[0][0], {"b": best}) is not None
            ok = (True if (recognised and partial_bound_ok) else (None if (recognised and partial_bound_ok is None) else False))
            obs.append(("prune", ok, f"continue under {txt}", "a branch is pruned only by a bound that is a lower bound of every label in its subtree", ex))
        else:
            obs.append(("exit", False, f"break under {txt}", "the branching loop is never cut short", ex))
    # leaf handling
    leaf_if = [n for n in fn.body if isinstance(n, ast.If) and pmatch("all((len($c) == 1 for $c in $p))", n.test, {"p": part}) is not None]
    if not leaf_if:
        obs.append(("leaf", None, "if all(len(c) == 1 ...)", "leaf test not found", fn))
        return obs
    lf = leaf_if[0]
    ifs = [n for n in lf.body if isinstance(n, ast.If)]
    ok_leaf = False
    if ifs:
        m_ = pmatch("$b['label'] is None or $l < $b['label']", ifs[0].test, {"b": best})
        if m_:
            lab = m_["l"]
            body_calls = [norm(c) for st in ifs[0].body for c in ast.walk(st) if isinstance(c, ast.Call)]
            perm_names = {b_["x"] for st in ifs[0].body for n_, b_ in pfind("$t.append($x)", st, {"t": ties})}
            cleared = any(c == f"{ties}.clear()" for c in body_calls)
            orelse = ifs[0].orelse
            eq_ok = bool(orelse) and isinstance(orelse[0], ast.If) and pmatch("$l == $b['label']", orelse[0].test, {"l": lab, "b": best}) is not None \
                and any(pfind("$t.append($x)", st, {"t": ties}) for st in orelse[0].body)
            ok_leaf = cleared and len(perm_names) == 1 and eq_ok
    obs.append(("leaf", ok_leaf, ifs[0].test if ifs else lf.test, "a strictly smaller label replaces the best and resets the tie list; an equal label is appended (all minimal leaves are kept)", lf))
    rets = [n for n in lf.body if isinstance(n, ast.Return)]
    obs.append(("leaf", bool(rets) and norm(rets[-1].value) == "False", rets[-1] if rets else "return", "a leaf never signals an early stop", lf))
    # refinement before the leaf test
    ref = [n for n in fn.body if isinstance(n, ast.Assign) and isinstance(n.value, ast.Call) and call_name(n.value) == "_refine"]
    obs.append(("refine", bool(ref) and fn.body.index(ref[0]) < fn.body.index(lf), ref[0] if ref else "_refine", "every node of the search tree is refined before it is examined", fn))
    return obs


# --------------------------------------------------------------------------
# shape of a positional canonical-label builder (nauty._build_label, CRNCanonicalizer._label)
# --------------------------------------------------------------------------
def label_builder_shape(fi: FuncInfo, node_keys: str, edge_keys: str, directed: bool):
    """[(tag, ok, construct, what, node)]; every local name is discovered structurally.
    node_keys / edge_keys are the attribute names on self (e.g. 'node_attrs' / 'edge_attrs')."""
    from ..pattern import pmatch, pfind
    fn = fi.node
    G, perm = fi.params[1], fi.params[2]
    defs = local_defs(fn)
    pm = parent_map(fn)
    obs = []
    # node segment
    pat = f"'|'.join((':'.join((str(self._freeze({G}.nodes[$v].get($a, ''))) for $a in self.{node_keys})) for $v in {perm}))"
    segs = [(n, b) for n, b in pfind("$ns = $$e", fn, into_nested=False) if isinstance(n, ast.Assign) and pmatch(pat, n.value) is not None]
    obs.append(("node-seg", len(segs) == 1, segs[0][0] if segs else f"'|'.join(... for v in {perm})", "the label lists the selected node attributes of every position, in position order", fn))
    ns = segs[0][1]["ns"] if segs else None
    # pair loops
    loops = [l for l in walk_local(fn) if isinstance(l, ast.For) and isinstance(l.iter, ast.Call) and call_name(l.iter) == "range"]
    outer = [l for l in loops if not enclosing_loops(pm, l, fn)]
    ok_pairs = False
    bits_name = None
    if len(outer) == 1:
        o = outer[0]
        i = norm(o.target)
        inner = [l for l in loops if enclosing_loops(pm, l, fn)[:1] == [o]]
        nm = pmatch("range($n)", o.iter)
        if len(inner) == 1 and nm:
            j = norm(inner[0].target)
            n_ = nm["n"]
            n_src = norm(origin(defs, ast.Name(id=n_, ctx=ast.Load())))
            if directed:
                skip = [s_ for s_ in inner[0].body if isinstance(s_, ast.If) and any(isinstance(x, ast.Continue) for x in s_.body)]
                ok_pairs = pmatch("range($n)", inner[0].iter, {"n": n_}) is not None and len(skip) == 1 and \
                    (pmatch("$i == $j", skip[0].test, {"i": i, "j": j}) is not None or pmatch("$j == $i", skip[0].test, {"i": i, "j": j}) is not None)
            else:
                ok_pairs = pmatch("range($i + 1, $n)", inner[0].iter, {"i": i, "n": n_}) is not None
            ok_pairs = ok_pairs and n_src == f"len({perm})"
            other_exits = [x for x in walk_local(o) if isinstance(x, (ast.Break, ast.Return))]
            ok_pairs = ok_pairs and not other_exits
            # vi = perm[i], vj = perm[j]
            vi = [b["v"] for n2, b in pfind(f"$v = {perm}[$k]", o, {"k": i})]
            vj = [b["v"] for n2, b in pfind(f"$v = {perm}[$k]", inner[0], {"k": j})]
            if vi and vj:
                ones = [(n2, b) for n2, b in pfind("$eb.append('1:' + ':'.join((str($x) for $x in $fr)))", inner[0])]
                zeros = [(n2, b) for n2, b in pfind(f"$eb.append('0:' + ':'.join(('' for $u in self.{edge_keys})))", inner[0])]
                ok_bits = False
                if len(ones) == 1 and len(zeros) == 1 and ones[0][1]["eb"] == zeros[0][1]["eb"]:
                    bits_name = ones[0][1]["eb"]
                    fr = ones[0][1]["fr"]
                    fr_src = [n2 for n2, b in pfind(f"$fr = tuple((self._freeze($at.get($a, '')) for $a in self.{edge_keys}))", inner[0], {"fr": fr})]
                    at_ok = False
                    if fr_src:
                        at = pmatch(f"$fr = tuple((self._freeze($at.get($a, '')) for $a in self.{edge_keys}))", fr_src[0])["at"]
                        at_ok = bool(pfind(f"$at = {G}[$vi][$vj]", inner[0], {"at": at, "vi": vi[0], "vj": vj[0]}))
                    g1 = guards_of(pm, ones[0][0], inner[0])
                    g0 = guards_of(pm, zeros[0][0], inner[0])
                    has = lambda gs, sense: any(pmatch(f"{G}.has_edge($a, $b)", t, {"a": vi[0], "b": vj[0]}) is not None and s_ == sense for t, s_ in gs)
                    ok_bits = bool(fr_src) and at_ok and has(g1, True) and has(g0, False)
                obs.append(("edge-bit", ok_bits, ones[0][0] if ones else "edge_bits.append('1:' ...)",
                            "a pair of positions gets '1:' + the selected attributes of exactly the edge between them, or '0:' if there is none", inner[0]))
            else:
                obs.append(("edge-bit", None, f"{perm}[i] / {perm}[j]", "position-to-node translation not recognised", o))
    if not loops:
        # functional form: one generator over combinations(perm, 2) / permutations(perm, 2) joined with '|'
        it_pat = f"permutations({perm}, 2)" if directed else f"combinations({perm}, 2)"
        bit1s = [f"'1:' + ':'.join((str($x) for $x in tuple((self._freeze({G}[$vi][$vj].get($a, '')) for $a in self.{edge_keys}))))",
                 f"'1:' + ':'.join((str(self._freeze({G}[$vi][$vj].get($a, ''))) for $a in self.{edge_keys}))"]
        bit0 = f"'0:' + ':'.join(('' for $u in self.{edge_keys}))"
        for st, b in pfind("$es = $$e", fn, into_nested=False):
            if not isinstance(st, ast.Assign):
                continue
            for b1 in bit1s:
                m = pmatch(f"'|'.join(({b1} if {G}.has_edge($vi, $vj) else {bit0} for $vi, $vj in {it_pat}))", st.value)
                if m:
                    bits_name = "<generator>"
                    ok_pairs = True
                    obs.append(("edge-bit", True, st, "a pair of positions gets '1:' + the selected attributes of exactly the edge between them, or '0:' if there is none", fn))
                    rets_ = sorted([n for n in walk_local(fn) if isinstance(n, ast.Return)], key=lambda n: n.lineno)
                    ok_ret_f = bool(rets_) and ns is not None and pmatch("$ns + '||' + $es", rets_[-1].value, {"ns": ns, "es": b["es"]}) is not None
                    obs.append(("pairs", True, it_pat, ("every ordered pair of distinct positions contributes an arc bit" if directed else "every unordered pair of positions contributes an edge bit"), fn))
                    obs.append(("return", ok_ret_f, rets_[-1] if rets_ else "return", "the label is the node segment followed by all pair bits (nothing dropped)", fn))
                    return obs
    obs.append(("pairs", ok_pairs, [norm(l.iter) for l in loops],
                ("every ordered pair of distinct positions contributes an arc bit" if directed else "every unordered pair of positions contributes an edge bit"), fn))
    # return NS + '||' + '|'.join(bits)
    rets = sorted([n for n in walk_local(fn) if isinstance(n, ast.Return)], key=lambda n: n.lineno)
    ok_ret = False
    if rets and ns and bits_name:
        m = pmatch("$ns + '||' + $es", rets[-1].value, {"ns": ns})
        if m:
            es_src = origin(defs, ast.Name(id=m["es"], ctx=ast.Load()))
            ok_ret = pmatch("'|'.join($eb)", es_src, {"eb": bits_name}) is not None
    obs.append(("return", ok_ret, rets[-1] if rets else "return", "the label is the node segment followed by all pair bits (nothing dropped)", fn))
    return obs


def split_sorted(fi: FuncInfo):
    """refinement: the grouping dict filled by g.setdefault(sig, []).append(v) must be iterated through sorted(g) with a total key.
    -> (ok, construct-node-or-text, group-names)"""
    from ..pattern import pfind
    from .label import _total_key
    groups = pfind("$g.setdefault($$s, []).append($$v)", fi.node)
    gnames = {b["g"] for _, b in groups}
    base = lambda e: norm(e).split(".")[0].split("(")[0].split("[")[0]
    # every iteration over the groups, `for` statements and comprehension generators alike
    its = [l for l in walk_local(fi.node) if isinstance(l, (ast.For, ast.comprehension))]
    srt = [l for l in its if isinstance(l.iter, ast.Call) and call_name(l.iter) == "sorted" and l.iter.args and base(l.iter.args[0]) in gnames]
    raw = [l for l in its if base(l.iter) in gnames]
    ok = len(gnames) == 1 and len(srt) == 1 and _total_key(srt[0].iter) and not raw
    return ok, (srt[0].iter if srt else (raw[0].iter if raw else "sorted(<signature groups>)")), gnames


def initial_partition_sorted(fi: FuncInfo, keys_attr: str):
    """return [sorted(cell) for _, cell in sorted(buckets.items()[, key=first component])] with buckets keyed by the attribute tuple"""
    from ..pattern import pmatch, pfind
    rets = sorted([n for n in walk_local(fi.node) if isinstance(n, ast.Return)], key=lambda n: n.lineno)
    if not rets:
        return False, "return"
    val = rets[-1].value
    mm = None
    for pat in ("[sorted($c) for $u, $c in sorted($b.items())]",
                "[sorted($c) for $u, $c in sorted($b.items(), key=lambda $kv: $kv[0])]",
                "[sorted($b[$k]) for $k in sorted($b)]", "[sorted($b[$k]) for $k in sorted($b.keys())]"):
        mm = pmatch(pat, val)
        if mm:
            break
    if not mm:
        return False, rets[-1]
    fills = pfind("$b.setdefault($$k, []).append($$v)", fi.node, {"b": mm["b"]})
    if not fills:
        return False, rets[-1]
    ksrc = origin(local_defs(fi.node), fills[0][0].func.value.args[0])
    return f"self.{keys_attr}" in norm(ksrc), rets[-1]
