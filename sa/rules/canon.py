"""R14 relabelling bijection, R4 digest determinism, R16 exhaustive IR search shape."""
from __future__ import annotations

import ast
from typing import Dict, List, Optional, Tuple

from ..absval import Lin, Undecided, linform
from ..core import FuncInfo, call_name, dotted, kwarg, local_defs, norm, origin, parent_map, walk_local
from ..facts import guards_of, enclosing_loops


# --------------------------------------------------------------------------
# R14
# --------------------------------------------------------------------------
def classify_order(defs, expr: ast.AST, graph_names=("g", "G"), depth: int = 0) -> Tuple[str, str]:
    """(class, reason) with class in
       BIJECTIVE   every node exactly once
       DUPLICATE   some node provably occurs twice
       UNKNOWN"""
    e = origin(defs, expr)
    t = norm(e).replace(" ", "")
    if isinstance(e, ast.Call) and isinstance(e.func, ast.Name) and e.func.id == "sorted" and e.args:
        inner = e.args[0]
        it = norm(inner).replace(" ", "")
        if any(it in (g, f"{g}.nodes", f"{g}.nodes()", f"{g}.nodes(data=True)") for g in graph_names):
            return "BIJECTIVE", f"sorted({it}) lists every node once"
        c, why = classify_order(defs, inner, graph_names, depth + 1)
        return c, f"sorted(..) of: {why}"
    if isinstance(e, ast.Call) and isinstance(e.func, ast.Name) and e.func.id == "list" and e.args:
        a = e.args[0]
        if isinstance(a, ast.Call) and norm(a.func) == "dict.fromkeys" and a.args:
            c, why = classify_order(defs, a.args[0], graph_names, depth + 1)
            if c in ("BIJECTIVE", "DUPLICATE"):
                return "BIJECTIVE", f"dict.fromkeys(..) removes the duplicates of: {why}"
            return "UNKNOWN", f"dict.fromkeys over: {why}"
        if isinstance(a, ast.Call) and norm(a.func) in ("chain.from_iterable", "itertools.chain.from_iterable") and len(a.args) == 1:
            return "BIJECTIVE", f"flatten of the (discrete) partition {norm(a.args[0])}: every node once"
        if isinstance(a, ast.Call) and norm(a.func) in ("chain", "itertools.chain") and len(a.args) == 1 and isinstance(a.args[0], ast.Starred):
            return "BIJECTIVE", f"flatten of the (discrete) partition {norm(a.args[0].value)}: every node once"
        return classify_order(defs, a, graph_names, depth + 1)
    if isinstance(e, ast.Call) and norm(e.func) == "sum" and len(e.args) == 2 and isinstance(e.args[1], ast.List) and not e.args[1].elts:
        return "BIJECTIVE", f"flatten of the (discrete) partition {norm(e.args[0])}: every node once"
    if isinstance(e, ast.ListComp) and len(e.generators) == 2:
        g0, g1 = e.generators
        if norm(g1.iter) == norm(g0.target) and norm(e.elt) == norm(g1.target) and not g0.ifs and not g1.ifs:
            return "BIJECTIVE", f"flatten of the (discrete) partition {norm(g0.iter)}: every node once"
    if isinstance(e, ast.BinOp) and isinstance(e.op, ast.Add):
        l, wl = classify_order(defs, e.left, graph_names, depth + 1)
        r, wr = classify_order(defs, e.right, graph_names, depth + 1)
        if r == "BIJECTIVE":
            # left operand: the individualised prefix consists of nodes of the same graph
            return "DUPLICATE", f"{norm(e.left)} + <all nodes>: every node of the left operand occurs twice"
        if l == "BIJECTIVE":
            return "DUPLICATE", f"<all nodes> + {norm(e.right)}: every node of the right operand occurs twice"
        return "UNKNOWN", f"concatenation {wl} + {wr}"
    if isinstance(e, ast.Subscript) and isinstance(e.slice, ast.Constant) and isinstance(e.slice.value, str):
        # best["perm"]: follow the stores into that key
        return "LOOKUP", norm(e)
    return "UNKNOWN", f"order expression not recognised: {norm(e)[:60]}"


def mapping_sites(fi: FuncInfo) -> List[Tuple[ast.DictComp, ast.AST]]:
    """`{old: i + 1 for i, old in enumerate(X)}` dict comprehensions"""
    out = []
    for n in walk_local(fi.node):
        if isinstance(n, ast.DictComp) and len(n.generators) == 1:
            g = n.generators[0]
            if isinstance(g.iter, ast.Call) and call_name(g.iter) == "enumerate" and g.iter.args:
                out.append((n, g.iter.args[0]))
    return out


def offset_of(dc: ast.DictComp) -> Optional[int]:
    g = dc.generators[0]
    idx = norm(g.target.elts[0]) if isinstance(g.target, ast.Tuple) else None
    try:
        lf = linform(dc.value, lambda n: "i" if norm(n) == idx else None)
        if lf.get("i") == 1:
            # enumerate(X, start=k) / enumerate(X, k): positions are counted from k
            st = kwarg(g.iter, "start") if isinstance(g.iter, ast.Call) else None
            if st is None and isinstance(g.iter, ast.Call) and len(g.iter.args) > 1:
                st = g.iter.args[1]
            base = 0
            if st is not None:
                if not (isinstance(st, ast.Constant) and isinstance(st.value, int)):
                    return None
                base = st.value
            return int(lf.get(1, 0)) + base
    except Undecided:
        pass
    return None


# --------------------------------------------------------------------------
# R16  individualisation-refinement search
# --------------------------------------------------------------------------
def ir_search_shape(fi: FuncInfo, partial_bound_ok: Optional[bool] = None):
    """list of (obligation, ok, construct, what, node); local variable names are discovered, never assumed"""
    from ..pattern import pmatch, pfind
    fn = fi.node
    pm = parent_map(fn)
    defs = local_defs(fn)
    obs = []
    me = fi.qual.split(".")[-1]
    params = fi.params
    part = params[2] if len(params) > 2 else "part"
    prefix = params[3] if len(params) > 3 else "prefix"
    best = params[4] if len(params) > 4 else "best"
    ties = params[5] if len(params) > 5 else "perms"
    loops = [l for l in walk_local(fn) if isinstance(l, ast.For)]
    branch = None
    for l in loops:
        if any(isinstance(c, ast.Call) and call_name(c) == me for c in walk_local(l)):
            branch = l
    if branch is None:
        obs.append(("branch", None, "for v in cell", "branching loop not found", fn))
        return obs
    it = origin(defs, branch.iter)
    base = it
    for _ in range(3):
        if isinstance(base, ast.Call) and isinstance(base.func, ast.Name) and base.func.id in ("sorted", "list") and base.args:
            base = origin(defs, base.args[0])
    mcell = pmatch("$p[$i]", base, {"p": part})
    ok_cell = mcell is not None
    obs.append(("branch", ok_cell, branch.iter, "the branching loop visits every member of the chosen cell", branch))
    ok_idx = False
    if mcell:
        idx = origin(defs, ast.Name(id=mcell["i"], ctx=ast.Load()))
        ok_idx = pmatch("next(($k for $k, $c in enumerate($p) if len($c) > 1))", idx, {"p": part}) is not None
        obs.append(("target-cell", ok_idx, idx, "the target cell is the first non-singleton cell of the (canonically ordered) partition", branch))
    for ex in [n for n in walk_local(branch) if isinstance(n, (ast.Break, ast.Continue, ast.Return))]:
        gs = guards_of(pm, ex, branch)
        txt = [norm(t) for t, s in gs]
        if isinstance(ex, ast.Return):
            ok = norm(ex.value) == "True" and any(f"{me}(" in t for t in txt)
            obs.append(("exit", ok, f"return {norm(ex.value)} under {[t[:40] for t in txt]}", "the only early exit of the branching loop propagates an explicit early stop", ex))
        elif isinstance(ex, ast.Continue):
            recognised = len(gs) == 1 and gs[0][1] and pmatch("$b['label'] is not None and $pl > $b['label']", gs[0][0], {"b": best}) is not None
            ok = (True if (recognised and partial_bound_ok) else (None if (recognised and partial_bound_ok is None) else False))
            obs.append(("prune", ok, f"continue under {txt}", "a branch is pruned only by a bound that is a lower bound of every label in its subtree", ex))
        else:
            obs.append(("exit", False, f"break under {txt}", "the branching loop is never cut short", ex))
    # the recursive call itself: every member of the cell is searched unless a recognised bound says otherwise - a condition evaluated before
    # the call (an enclosing `if`, an earlier operand of the same `and` / `or`, a conditional expression) is a prune like a guarded `continue`
    for c in [c for c in walk_local(branch) if isinstance(c, ast.Call) and call_name(c) == me]:
        conds = []
        cur = c
        while cur is not branch and cur in pm:
            par = pm[cur]
            if isinstance(par, ast.BoolOp) and par.values and par.values[0] is not cur:
                conds.extend(norm(v) for v in par.values[:par.values.index(cur)])
            elif isinstance(par, ast.IfExp) and cur is not par.test:
                conds.append(norm(par.test))
            elif isinstance(par, ast.comprehension) or (isinstance(par, (ast.ListComp, ast.SetComp, ast.GeneratorExp, ast.DictComp)) and any(g.ifs for g in par.generators)):
                conds.extend(norm(t) for g in (par.generators if not isinstance(par, ast.comprehension) else [par]) for t in g.ifs)
            elif isinstance(par, (ast.If, ast.While)) and cur is not par.test:
                conds.append(norm(par.test))
            cur = par
        bound_neg = [t for t in conds if pmatch("not ($b['label'] is not None and $pl > $b['label'])", ast.parse(t, mode="eval").body, {"b": best}) is not None
                     or pmatch("$b['label'] is None or $pl <= $b['label']", ast.parse(t, mode="eval").body, {"b": best}) is not None]
        if conds and len(bound_neg) == len(conds):
            ok = True if partial_bound_ok else (None if partial_bound_ok is None else False)
            obs.append(("prune", ok, f"{me}(...) only under {[t[:60] for t in conds]}", "a branch is pruned only by a bound that is a lower bound of every label in its subtree", c))
        elif conds:
            obs.append(("prune", False, f"{me}(...) only under {[t[:60] for t in conds]}", "a branch is pruned only by a bound that is a lower bound of every label in its subtree", c))
    # leaf handling
    leaf_if = [n for n in fn.body if isinstance(n, ast.If) and pmatch("all((len($c) == 1 for $c in $p))", n.test, {"p": part}) is not None]
    if not leaf_if:
        obs.append(("leaf", None, "if all(len(c) == 1 ...)", "leaf test not found", fn))
        return obs
    lf = leaf_if[0]
    ifs = [n for n in lf.body if isinstance(n, ast.If)]
    ok_leaf = False
    if ifs:
        m_ = pmatch("$b['label'] is None or $l < $b['label']", ifs[0].test, {"b": best})
        if m_:
            lab = m_["l"]
            body_calls = [norm(c) for st in ifs[0].body for c in ast.walk(st) if isinstance(c, ast.Call)]
            perm_names = {b_["x"] for st in ifs[0].body for n_, b_ in pfind("$t.append($$x)", st, {"t": ties})}
            cleared = any(c == f"{ties}.clear()" for c in body_calls)
            orelse = ifs[0].orelse
            eq_ok = bool(orelse) and isinstance(orelse[0], ast.If) and pmatch("$l == $b['label']", orelse[0].test, {"l": lab, "b": best}) is not None \
                and {b_["x"] for st in orelse[0].body for n_, b_ in pfind("$t.append($$x)", st, {"t": ties})} == perm_names
            ok_leaf = cleared and len(perm_names) == 1 and eq_ok
    obs.append(("leaf", ok_leaf, ifs[0].test if ifs else lf.test, "a strictly smaller label replaces the best and resets the tie list; an equal label is appended (all minimal leaves are kept)", lf))
    rets = [n for n in lf.body if isinstance(n, ast.Return)]
    obs.append(("leaf", bool(rets) and norm(rets[-1].value) == "False", rets[-1] if rets else "return", "a leaf never signals an early stop", lf))
    # refinement before the leaf test
    ref = [n for n in fn.body if isinstance(n, ast.Assign) and isinstance(n.value, ast.Call) and call_name(n.value) == "_refine"]
    obs.append(("refine", bool(ref) and fn.body.index(ref[0]) < fn.body.index(lf), ref[0] if ref else "_refine", "every node of the search tree is refined before it is examined", fn))
    return obs


# --------------------------------------------------------------------------
# shape of a positional canonical-label builder (nauty._build_label, CRNCanonicalizer._label)
# --------------------------------------------------------------------------
def label_builder_shape(fi: FuncInfo, node_keys: str, edge_keys: str, directed: bool):
    """[(tag, ok, construct, what, node)]; every local name is discovered structurally.
    node_keys / edge_keys are the attribute names on self (e.g. 'node_attrs' / 'edge_attrs')."""
    from ..pattern import pmatch, pfind
    fn = fi.node
    G, perm = fi.params[1], fi.params[2]
    defs = local_defs(fn)
    pm = parent_map(fn)
    obs = []
    unrecognised = False
    # node segment
    pat = f"'|'.join((':'.join((str(self._freeze({G}.nodes[$v].get($a, ''))) for $a in self.{node_keys})) for $v in {perm}))"
    segs = [(n, b) for n, b in pfind("$ns = $$e", fn, into_nested=False) if isinstance(n, ast.Assign) and pmatch(pat, n.value) is not None]
    obs.append(("node-seg", len(segs) == 1, segs[0][0] if segs else f"'|'.join(... for v in {perm})", "the label lists the selected node attributes of every position, in position order", fn))
    ns = segs[0][1]["ns"] if segs else None
    # pair loops: two nested loops over the positions of `perm`, each pair appending exactly one bit
    def loop_info(l, body_scope):
        """(index variable or None, node expression text, 'full' | ('upper', index var of the outer loop) | None)"""
        it = l.iter
        if isinstance(it, ast.Call) and call_name(it) == "range" and isinstance(l.target, ast.Name):
            idx = l.target.id
            vs = [b_["v"] for n2, b_ in pfind(f"$v = {perm}[{idx}]", body_scope)]
            node = vs[0] if len(vs) == 1 else f"{perm}[{idx}]"
            m1 = pmatch("range($$n)", it)
            if m1 is not None and norm(origin(defs, it.args[0])) == f"len({perm})":
                return idx, node, "full"
            m2 = pmatch("range($i + 1, $$n)", it)
            if m2 is not None and norm(origin(defs, it.args[1])) == f"len({perm})":
                return idx, node, ("upper", m2["i"])
            return idx, node, None
        if pmatch(f"enumerate({perm})", it) is not None and isinstance(l.target, ast.Tuple) and len(l.target.elts) == 2 and all(isinstance(e, ast.Name) for e in l.target.elts):
            return l.target.elts[0].id, l.target.elts[1].id, "full"
        if norm(it) == perm and isinstance(l.target, ast.Name):
            return None, l.target.id, "full"
        return None, None, None

    loops = []
    ok_pairs = False
    bits_name = None
    apps = [c for c in walk_local(fn) if isinstance(c, ast.Call) and isinstance(c.func, ast.Attribute) and c.func.attr == "append" and len(c.args) == 1
            and isinstance(c.func.value, ast.Name) and len(enclosing_loops(pm, c, fn)) == 2]
    conts = {c.func.value.id for c in apps}
    if len(conts) == 1 and apps:
        inner_l, outer_l = enclosing_loops(pm, apps[0], fn)
        same = all(enclosing_loops(pm, c, fn) == [inner_l, outer_l] for c in apps)
        loops = [outer_l, inner_l]
        i, vi, ro = loop_info(outer_l, ast.Module(body=[s_ for s_ in outer_l.body if s_ is not inner_l], type_ignores=[]))
        j, vj, ri = loop_info(inner_l, inner_l)
        from ..facts import concat_parts

        def bit(c, lead, tail_pat):
            """the join expression of an appended `<lead> + <join>` (or f"<lead>{<join>}"), else None"""
            ps_ = concat_parts(origin(defs, c.args[0]))
            if ps_ and len(ps_) == 2 and isinstance(ps_[0], ast.Constant) and ps_[0].value == lead:
                t_ = origin(defs, ps_[1])
                if isinstance(t_, ast.Name):
                    # a name bound once per branch: the binding that precedes the append in the same block
                    st_ = pm.get(c)
                    while st_ is not None and not isinstance(st_, ast.stmt):
                        st_ = pm.get(st_)
                    own = pm.get(st_)
                    for f_ in ("body", "orelse"):
                        blk = getattr(own, f_, None)
                        if isinstance(blk, list) and any(x is st_ for x in blk):
                            before = [x for x in blk[:[x is st_ for x in blk].index(True)] if isinstance(x, ast.Assign) and len(x.targets) == 1
                                      and norm(x.targets[0]) == t_.id]
                            if before:
                                t_ = before[-1].value
                if pmatch(tail_pat, t_) is not None:
                    return t_
            return None
        b1p = "':'.join((str($x) for $x in $$fr))"
        b0p = f"':'.join(('' for $u in self.{edge_keys}))"
        ones = [c for c in apps if bit(c, "1:", b1p) is not None]
        zeros = [c for c in apps if bit(c, "0:", b0p) is not None]
        if same and vi and vj and len(ones) == 1 and len(zeros) == 1 and len(apps) == 2:
            bits_name = conts.pop()
            skip_ok = False
            want_g = set()
            if directed:
                if ro == "full" and ri == "full":
                    skip_ok = True
                    want_g = {(f"{i} != {j}", True), (f"{j} != {i}", True)} if i and j else {(f"{vi} != {vj}", True), (f"{vj} != {vi}", True)}
            else:
                skip_ok = ro == "full" and isinstance(ri, tuple) and ri[1] == i
            g1 = {(norm(t), s_) for t, s_ in guards_of(pm, ones[0], outer_l)}
            g0 = {(norm(t), s_) for t, s_ in guards_of(pm, zeros[0], outer_l)}
            he = f"{G}.has_edge({vi}, {vj})"
            rest1 = {g for g in g1 if g != (he, True)}
            rest0 = {g for g in g0 if g != (he, False)}
            # apart from the edge test the two bits are emitted under the same condition: only "positions differ" (ordered pairs)
            guards_ok = (he, True) in g1 and (he, False) in g0 and rest1 == rest0 and \
                ((directed and len(rest1) == 1 and rest1 <= want_g) or (not directed and not rest1))
            other_exits = [x for x in walk_local(outer_l) if isinstance(x, (ast.Break, ast.Return))]
            ok_pairs = skip_ok and guards_ok and not other_exits
            # the '1:' bit carries the selected attributes of exactly the edge (vi, vj)
            fr = origin(defs, bit(ones[0], "1:", b1p).args[0].generators[0].iter)
            at_ok = False
            mfr = pmatch(f"tuple((self._freeze($$at.get($a, '')) for $a in self.{edge_keys}))", fr)
            if mfr is not None:
                at = origin(defs, fr.args[0].elt.args[0].func.value)
                at_ok = norm(at) == f"{G}[{vi}][{vj}]"
            obs.append(("edge-bit", at_ok and guards_ok, ones[0],
                        "a pair of positions gets '1:' + the selected attributes of exactly the edge between them, or '0:' if there is none", inner_l))
        else:
            obs.append(("edge-bit", None, f"{perm}[i] / {perm}[j]", "pair loops / bit expressions not recognised", outer_l))
            unrecognised = True
    if not loops:
        # functional form: one generator over combinations(perm, 2) / permutations(perm, 2) joined with '|'
        it_pat = f"permutations({perm}, 2)" if directed else f"combinations({perm}, 2)"
        bit1s = [f"'1:' + ':'.join((str($x) for $x in tuple((self._freeze({G}[$vi][$vj].get($a, '')) for $a in self.{edge_keys}))))",
                 f"'1:' + ':'.join((str(self._freeze({G}[$vi][$vj].get($a, ''))) for $a in self.{edge_keys}))"]
        bit0 = f"'0:' + ':'.join(('' for $u in self.{edge_keys}))"
        for st, b in pfind("$es = $$e", fn, into_nested=False):
            if not isinstance(st, ast.Assign):
                continue
            for b1 in bit1s:
                m = pmatch(f"'|'.join(({b1} if {G}.has_edge($vi, $vj) else {bit0} for $vi, $vj in {it_pat}))", st.value)
                if m:
                    bits_name = "<generator>"
                    ok_pairs = True
                    obs.append(("edge-bit", True, st, "a pair of positions gets '1:' + the selected attributes of exactly the edge between them, or '0:' if there is none", fn))
                    rets_ = sorted([n for n in walk_local(fn) if isinstance(n, ast.Return)], key=lambda n: n.lineno)
                    ok_ret_f = bool(rets_) and ns is not None and pmatch("$ns + '||' + $es", rets_[-1].value, {"ns": ns, "es": b["es"]}) is not None
                    obs.append(("pairs", True, it_pat, ("every ordered pair of distinct positions contributes an arc bit" if directed else "every unordered pair of positions contributes an edge bit"), fn))
                    obs.append(("return", ok_ret_f, rets_[-1] if rets_ else "return", "the label is the node segment followed by all pair bits (nothing dropped)", fn))
                    return obs
    if unrecognised:
        # the bits are produced in a way this rule does not read (helper, memo, table): nothing here is evidence of a wrong label
        ok_pairs = ok_pairs or None
    obs.append(("pairs", ok_pairs, [norm(l.iter) for l in loops],
                ("every ordered pair of distinct positions contributes an arc bit" if directed else "every unordered pair of positions contributes an edge bit"), fn))
    # return NS + '||' + '|'.join(bits)
    rets = sorted([n for n in walk_local(fn) if isinstance(n, ast.Return)], key=lambda n: n.lineno)
    ok_ret = False
    if rets and ns and bits_name:
        from ..facts import concat_parts
        rp_ = concat_parts(rets[-1].value)
        if rp_ and len(rp_) == 3 and norm(rp_[0]) == ns and isinstance(rp_[1], ast.Constant) and rp_[1].value == "||":
            es_src = origin(defs, rp_[2])
            ok_ret = pmatch("'|'.join($eb)", es_src, {"eb": bits_name}) is not None
    if unrecognised and not ok_ret:
        ok_ret = None
    obs.append(("return", ok_ret, rets[-1] if rets else "return", "the label is the node segment followed by all pair bits (nothing dropped)", fn))
    return obs


def split_sorted(fi: FuncInfo):
    """refinement: the grouping dict filled by g.setdefault(sig, []).append(v) must be iterated through sorted(g) with a total key.
    -> (ok, construct-node-or-text, group-names)"""
    from ..pattern import pfind
    from .label import _total_key
    groups = pfind("$g.setdefault($$s, []).append($$v)", fi.node)
    gnames = {b["g"] for _, b in groups}
    base = lambda e: norm(e).split(".")[0].split("(")[0].split("[")[0]
    # every iteration over the groups, `for` statements and comprehension generators alike
    its = [l for l in walk_local(fi.node) if isinstance(l, (ast.For, ast.comprehension))]
    srt = [l for l in its if isinstance(l.iter, ast.Call) and call_name(l.iter) == "sorted" and l.iter.args and base(l.iter.args[0]) in gnames]
    raw = [l for l in its if base(l.iter) in gnames]
    ok = len(gnames) == 1 and len(srt) == 1 and _total_key(srt[0].iter) and not raw
    return ok, (srt[0].iter if srt else (raw[0].iter if raw else "sorted(<signature groups>)")), gnames


def initial_partition_sorted(fi: FuncInfo, keys_attr: str):
    """return [sorted(cell) for _, cell in sorted(buckets.items()[, key=first component])] with buckets keyed by the attribute tuple"""
    from ..pattern import pmatch, pfind
    rets = sorted([n for n in walk_local(fi.node) if isinstance(n, ast.Return)], key=lambda n: n.lineno)
    if not rets:
        return False, "return"
    val = rets[-1].value
    mm = None
    for pat in ("[sorted($c) for $u, $c in sorted($b.items())]",
                "[sorted($c) for $u, $c in sorted($b.items(), key=lambda $kv: $kv[0])]",
                "[sorted($b[$k]) for $k in sorted($b)]", "[sorted($b[$k]) for $k in sorted($b.keys())]"):
        mm = pmatch(pat, val)
        if mm:
            break
    if not mm:
        return False, rets[-1]
    fills = pfind("$b.setdefault($$k, []).append($$v)", fi.node, {"b": mm["b"]})
    if not fills:
        return False, rets[-1]
    ksrc = origin(local_defs(fi.node), fills[0][0].func.value.args[0])
    return f"self.{keys_attr}" in norm(ksrc), rets[-1]
