"""R14 relabelling bijection, R4 digest determinism, R16 exhaustive IR search shape."""
from __future__ import annotations

import ast
from typing import Dict, List, Optional, Tuple

from ..absval import Lin, Undecided, linform
from ..core import FuncInfo, call_name, dotted, local_defs, norm, origin, parent_map, walk_local
from ..facts import guards_of, enclosing_loops


# --------------------------------------------------------------------------
# R14
# --------------------------------------------------------------------------
def classify_order(defs, expr: ast.AST, graph_names=("g", "G"), depth: int = 0) -> Tuple[str, str]:
    """(class, reason) with class in
       BIJECTIVE   every node exactly once
       DUPLICATE   some node provably occurs twice
       UNKNOWN"""
    e = origin(defs, expr)
    t = norm(e).replace(" ", "")
    if isinstance(e, ast.Call) and isinstance(e.func, ast.Name) and e.func.id == "sorted" and e.args:
        inner = e.args[0]
        it = norm(inner).replace(" ", "")
        if any(it in (g, f"{g}.nodes", f"{g}.nodes()", f"{g}.nodes(data=True)") for g in graph_names):
            return "BIJECTIVE", f"sorted({it}) lists every node once"
        c, why = classify_order(defs, inner, graph_names, depth + 1)
        return c, f"sorted(..) of: {why}"
    if isinstance(e, ast.Call) and isinstance(e.func, ast.Name) and e.func.id == "list" and e.args:
        a = e.args[0]
        if isinstance(a, ast.Call) and norm(a.func) == "dict.fromkeys" and a.args:
            c, why = classify_order(defs, a.args[0], graph_names, depth + 1)
            if c in ("BIJECTIVE", "DUPLICATE"):
                return "BIJECTIVE", f"dict.fromkeys(..) removes the duplicates of: {why}"
            return "UNKNOWN", f"dict.fromkeys over: {why}"
        return classify_order(defs, a, graph_names, depth + 1)
    if isinstance(e, ast.ListComp) and len(e.generators) == 2:
        g0, g1 = e.generators
        if norm(g1.iter) == norm(g0.target) and norm(e.elt) == norm(g1.target) and not g0.ifs and not g1.ifs:
            return "BIJECTIVE", f"flatten of the (discrete) partition {norm(g0.iter)}: every node once"
    if isinstance(e, ast.BinOp) and isinstance(e.op, ast.Add):
        l, wl = classify_order(defs, e.left, graph_names, depth + 1)
        r, wr = classify_order(defs, e.right, graph_names, depth + 1)
        if r == "BIJECTIVE":
            # left operand: the individualised prefix consists of nodes of the same graph
            return "DUPLICATE", f"{norm(e.left)} + <all nodes>: every node of the left operand occurs twice"
        if l == "BIJECTIVE":
            return "DUPLICATE", f"<all nodes> + {norm(e.right)}: every node of the right operand occurs twice"
        return "UNKNOWN", f"concatenation {wl} + {wr}"
    if isinstance(e, ast.Subscript) and isinstance(e.slice, ast.Constant) and isinstance(e.slice.value, str):
        # best["perm"]: follow the stores into that key
        return "LOOKUP", norm(e)
    return "UNKNOWN", f"order expression not recognised: {norm(e)[:60]}"


def mapping_sites(fi: FuncInfo) -> List[Tuple[ast.DictComp, ast.AST]]:
    """`{old: i + 1 for i, old in enumerate(X)}` dict comprehensions"""
    out = []
    for n in walk_local(fi.node):
        if isinstance(n, ast.DictComp) and len(n.generators) == 1:
            g = n.generators[0]
            if isinstance(g.iter, ast.Call) and call_name(g.iter) == "enumerate" and g.iter.args:
                out.append((n, g.iter.args[0]))
    return out


def offset_of(dc: ast.DictComp) -> Optional[int]:
    g = dc.generators[0]
    idx = norm(g.target.elts[0]) if isinstance(g.target, ast.Tuple) else None
    try:
        lf = linform(dc.value, lambda n: "i" if norm(n) == idx else None)
        if lf.get("i") == 1:
            return int(lf.get(1, 0))
    except Undecided:
        pass
    return None


# --------------------------------------------------------------------------
# R16  individualisation-refinement search
# --------------------------------------------------------------------------
def ir_search_shape(fi: FuncInfo, partial_bound_ok: Optional[bool] = None):
    """list of (obligation, ok, construct, what, node)"""
    fn = fi.node
    pm = parent_map(fn)
    defs = local_defs(fn)
    obs = []
    loops = [l for l in walk_local(fn) if isinstance(l, ast.For)]
    branch = None
    for l in loops:
        if any(isinstance(c, ast.Call) and call_name(c) == "_search" for c in walk_local(l)):
            branch = l
    if branch is None:
        obs.append(("branch", None, "for v in cell", "branching loop not found", fn))
        return obs
    it = origin(defs, branch.iter)
    base = it
    if isinstance(base, ast.Call) and isinstance(base.func, ast.Name) and base.func.id in ("sorted", "list") and base.args:
        base = origin(defs, base.args[0])
        if isinstance(base, ast.Call) and isinstance(base.func, ast.Name) and base.func.id in ("sorted", "list") and base.args:
            base = origin(defs, base.args[0])
    part = fi.params[2] if len(fi.params) > 2 else "part"
    ok_cell = isinstance(base, ast.Subscript) and norm(base.value) == part and norm(base.slice) == "idx"
    obs.append(("branch", ok_cell, branch.iter, "the branching loop visits every member of the chosen cell", branch))
    idx = origin(defs, ast.Name(id="idx", ctx=ast.Load()))
    ok_idx = norm(idx).replace(" ", "") == f"next((ifori,cinenumerate({part})iflen(c)>1))"
    obs.append(("target-cell", ok_idx, idx, "the target cell is the first non-singleton cell of the (canonically ordered) partition", branch))
    for ex in [n for n in walk_local(branch) if isinstance(n, (ast.Break, ast.Continue, ast.Return))]:
        gs = guards_of(pm, ex, branch)
        txt = [norm(t) for t, s in gs]
        if isinstance(ex, ast.Return):
            ok = norm(ex.value) == "True" and any("_search(" in t for t in txt)
            obs.append(("exit", ok, f"return {norm(ex.value)} under {[t[:40] for t in txt]}", "the only early exit of the branching loop propagates an explicit early stop", ex))
        elif isinstance(ex, ast.Continue):
            recognised = len(gs) == 1 and gs[0][1] and norm(gs[0][0]).replace(" ", "") == "best['label']isnotNoneandpartial_label>best['label']"
            ok = (True if (recognised and partial_bound_ok) else (None if (recognised and partial_bound_ok is None) else False))
            obs.append(("prune", ok, f"continue under {txt}", "a branch is pruned only by a bound that is a lower bound of every label in its subtree", ex))
        else:
            obs.append(("exit", False, f"break under {txt}", "the branching loop is never cut short", ex))
    # leaf handling
    leaf_if = [n for n in fn.body if isinstance(n, ast.If) and "all(" in norm(n.test) and "len(c) == 1" in norm(n.test)]
    if not leaf_if:
        obs.append(("leaf", None, "if all(len(c) == 1 ...)", "leaf test not found", fn))
        return obs
    lf = leaf_if[0]
    ifs = [n for n in lf.body if isinstance(n, ast.If)]
    ok_leaf = False
    if ifs:
        t = norm(ifs[0].test).replace(" ", "")
        lab = None
        for nm in ("lab", "label"):
            if f"{nm}<best['label']" in t:
                lab = nm
        body_txt = " ; ".join(norm(s) for s in ifs[0].body)
        orelse = ifs[0].orelse
        eq_ok = bool(orelse) and isinstance(orelse[0], ast.If) and norm(orelse[0].test).replace(" ", "") == f"{lab}==best['label']" \
            and any(isinstance(c, ast.Call) and call_name(c) == "append" for c in ast.walk(orelse[0]))
        ok_leaf = lab is not None and "best['label']isNone" in t and ".clear()" in body_txt and ".append(perm)" in body_txt and eq_ok
    obs.append(("leaf", ok_leaf, ifs[0].test if ifs else lf.test, "a strictly smaller label replaces the best and resets the tie list; an equal label is appended (all minimal leaves are kept)", lf))
    rets = [n for n in lf.body if isinstance(n, ast.Return)]
    obs.append(("leaf", bool(rets) and norm(rets[-1].value) == "False", rets[-1] if rets else "return", "a leaf never signals an early stop", lf))
    # refinement before the leaf test
    ref = [n for n in fn.body if isinstance(n, ast.Assign) and isinstance(n.value, ast.Call) and call_name(n.value) == "_refine"]
    obs.append(("refine", bool(ref) and fn.body.index(ref[0]) < fn.body.index(lf), ref[0] if ref else "_refine", "every node of the search tree is refined before it is examined", fn))
    return obs
