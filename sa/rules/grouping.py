"""itertools.groupby groups *runs* of equal keys: unless its input is sorted by the same key, the members of one class come out as several
groups - and a dict built from the groups keeps only the last run of each key."""
from __future__ import annotations

import ast
from typing import List, Tuple

from ..core import kwarg, local_defs, norm, origin, walk_local


def unsorted_groupby(fn: ast.AST) -> List[Tuple[ast.AST, str]]:
    defs = local_defs(fn)
    out = []
    for c in walk_local(fn, into_nested=True):
        if not (isinstance(c, ast.Call) and norm(c.func) in ("groupby", "itertools.groupby") and c.args):
            continue
        key = kwarg(c, "key") or (c.args[1] if len(c.args) > 1 else None)
        src = origin(defs, c.args[0])
        ok = False
        if isinstance(src, ast.Call) and norm(src.func) == "sorted":
            skey = kwarg(src, "key")
            ok = (key is None and skey is None) or (key is not None and skey is not None and norm(key) == norm(skey))
        if not ok:
            out.append((c, f"groupby over `{norm(c.args[0])[:40]}` which is not sorted by the grouping key `{norm(key) if key is not None else 'identity'}`"))
    return out
