"""Slot-merge invariant for orbit bookkeeping of the form

    orbits : list of sets,  orbit_map : element -> slot index
    def merge(i, j): ... one set absorbs the other, one slot is emptied, members are re-pointed ...

Invariant (needed for `orbit_map[v]` to name the slot that holds v's orbit): if slot T' is emptied and
slot T keeps the union, then *every element of the set that was stored at T'* is re-pointed to T and the
union object is the one stored at T.  The function body is executed symbolically for both outcomes of
every size comparison (sets are the symbols O[i], O[j]; indices the symbols i, j).
"""
from __future__ import annotations

import ast
import itertools
from typing import Dict, List, Optional, Tuple

from ..absval import Undecided
from ..core import norm
from ..shape import tri, walk_paths


def check_merge(fn: ast.AST, store: Optional[str] = None, index_map: Optional[str] = None) -> List[Tuple[Optional[bool], str, dict]]:
    a = [x.arg for x in fn.args.args]
    if len(a) != 2:
        return [(None, "merge helper does not take two slot indices", {})]
    I, J = a
    # the slot list is the name that is subscripted by the two parameters; the index map the one subscript-assigned in a loop
    if store is None:
        cands = [n.value.id for n in ast.walk(fn) if isinstance(n, ast.Subscript) and isinstance(n.value, ast.Name)
                 and isinstance(n.slice, ast.Name) and n.slice.id in (I, J) and isinstance(n.ctx, ast.Load)]
        store = max(set(cands), key=cands.count) if cands else "orbits"
    if index_map is None:
        cands = [st.targets[0].value.id for l in ast.walk(fn) if isinstance(l, ast.For) for st in l.body
                 if isinstance(st, ast.Assign) and isinstance(st.targets[0], ast.Subscript) and isinstance(st.targets[0].value, ast.Name)
                 and st.targets[0].value.id != store]
        index_map = cands[0] if cands else "orbit_map"
    tests = []
    for n in ast.walk(fn):
        if isinstance(n, (ast.If, ast.IfExp)):
            t = norm(n.test)
            if t.replace(" ", "") not in (f"{I}=={J}", f"{J}=={I}") and t not in tests:
                tests.append(t)
    out = []
    for vals in itertools.product((True, False), repeat=len(tests)):
        known = dict(zip(tests, vals))
        known[f"{I} == {J}"] = False
        try:
            paths = walk_paths(fn.body, known)
        except Undecided as exc:
            return [(None, f"path enumeration failed: {exc}", {})]
        results = [_simulate(p.stmts, known, I, J, store, index_map) for p in paths]
        # the path walker also explores loops with zero iterations; the re-pointing loop runs over a non-empty set
        with_loop = [r for r in results if "repoint None" not in r[1]]
        for res in (with_loop or results):
            out.append(res + ({"assumed": {k: v for k, v in known.items() if k in tests}},))
    return [(ok, msg, facts) for ok, msg, facts in out]


def _resolve(expr, known):
    while isinstance(expr, ast.IfExp):
        v = tri(expr.test, known)
        if v is None:
            raise Undecided(f"undetermined conditional expression {norm(expr)[:50]}")
        expr = expr.body if v else expr.orelse
    return expr


def _simulate(stmts, known, I, J, store, index_map):
    env: Dict[str, str] = {I: "i", J: "j"}
    emptied: List[str] = []
    placed: Dict[str, str] = {}
    merged_into = absorbed = None
    repoint_set = repoint_to = None

    def val(e):
        e = _resolve(e, known)
        if isinstance(e, ast.Name):
            return env.get(e.id, e.id)
        if isinstance(e, ast.Subscript) and norm(e.value) == store:
            return f"O[{val(e.slice)}]"
        if isinstance(e, ast.Call) and norm(e.func) == "set" and not e.args:
            return "EMPTY"
        return norm(e)

    try:
        for st in stmts:
            if isinstance(st, ast.Assign) and len(st.targets) == 1:
                t, v = st.targets[0], _resolve(st.value, known)
                tg = t.elts if isinstance(t, ast.Tuple) else [t]
                vs = v.elts if isinstance(v, ast.Tuple) and isinstance(t, ast.Tuple) else [v]
                if len(tg) != len(vs):
                    raise Undecided(f"cannot unpack {norm(st)[:50]}")
                vals = [val(x) for x in vs]  # simultaneous assignment
                for tt, vv in zip(tg, vals):
                    if isinstance(tt, ast.Name):
                        env[tt.id] = vv
                    elif isinstance(tt, ast.Subscript) and norm(tt.value) == store:
                        slot = val(tt.slice)
                        if vv == "EMPTY":
                            emptied.append(slot)
                        else:
                            placed[slot] = vv
                    elif isinstance(tt, ast.Subscript) and norm(tt.value) == index_map:
                        pass
            elif isinstance(st, ast.Expr) and isinstance(st.value, ast.Call) and isinstance(st.value.func, ast.Attribute) \
                    and st.value.func.attr in ("update", "__ior__") and st.value.args:
                merged_into, absorbed = val(st.value.func.value), val(st.value.args[0])
            elif isinstance(st, ast.AugAssign) and isinstance(st.op, ast.BitOr):
                merged_into, absorbed = val(st.target), val(st.value)
            elif isinstance(st, ast.For):
                body = [b for b in st.body if isinstance(b, ast.Assign)]
                for b in body:
                    tt = b.targets[0]
                    if isinstance(tt, ast.Subscript) and norm(tt.value) == index_map and norm(tt.slice) == norm(st.target):
                        repoint_set, repoint_to = val(st.iter), val(b.value)
            elif isinstance(st, (ast.Return, ast.Pass)):
                continue
    except Undecided as exc:
        return None, str(exc)
    if merged_into is None and not emptied:
        return True, "nothing merged on this path"
    facts = f"union={merged_into} absorbed={absorbed} emptied={emptied} placed={placed} repoint {repoint_set} -> {repoint_to}"
    if len(emptied) != 1 or merged_into is None:
        return None, "merge shape not recognised: " + facts
    Tp = emptied[0]
    T = "j" if Tp == "i" else "i"
    holder = placed.get(T, f"O[{T}]")
    ok = holder == merged_into and repoint_set == f"O[{Tp}]" and repoint_to == T
    return ok, facts
