"""Orientation-sensitive edge membership: `(u, v) in S` where S is a *materialised* collection of the edges of an undirected graph
(`set(G.edges())`, `list(G.edges)`, a set comprehension over `G.edges()`) is true only for the orientation in which networkx happened to
report the edge; `G.has_edge(u, v)` and `(u, v) in G.edges` are symmetric.  A decision "is there a bond between u and v" taken through such
a collection is wrong for half of the node orderings."""
from __future__ import annotations

import ast
from typing import List, Tuple

from ..core import call_name, local_defs, norm, origin, walk_local


def _materialised_edges(e) -> bool:
    if isinstance(e, ast.Call) and isinstance(e.func, ast.Name) and e.func.id in ("set", "list", "tuple", "frozenset", "sorted") and len(e.args) == 1:
        a = e.args[0]
        if isinstance(a, ast.Call) and isinstance(a.func, ast.Attribute) and a.func.attr == "edges":
            return not any(k.arg == "data" for k in a.keywords)
        if isinstance(a, ast.Attribute) and a.attr == "edges":
            return True
    if isinstance(e, (ast.SetComp, ast.ListComp)) and len(e.generators) == 1:
        it = e.generators[0].iter
        src = it.func if isinstance(it, ast.Call) else it
        if isinstance(src, ast.Attribute) and src.attr == "edges" and isinstance(e.elt, ast.Tuple) and len(e.elt.elts) == 2:
            # {(u, v) for u, v in G.edges()} keeps one orientation; a comprehension that adds both (sorted pair / frozenset) is fine
            return all(isinstance(x, ast.Name) for x in e.elt.elts)
    return False


def oriented_edge_membership(fn: ast.AST) -> List[Tuple[ast.AST, str]]:
    defs = local_defs(fn)
    out = []
    for n in walk_local(fn):
        if isinstance(n, ast.Compare) and len(n.ops) == 1 and isinstance(n.ops[0], (ast.In, ast.NotIn)) and isinstance(n.left, ast.Tuple) and len(n.left.elts) == 2:
            coll = origin(defs, n.comparators[0])
            if _materialised_edges(coll):
                out.append((n, f"`{norm(n.comparators[0])}` holds each undirected bond in one orientation only ({norm(coll)[:50]})"))
    return out
