"""R9 - parameter non-mutation.

``mutations(fi, param)`` lists every construct in ``fi`` that may modify the
object bound to ``param`` (or a mutable view derived from it) on a path that is
not dominated by a rebinding of the name to a copy.
"""
from __future__ import annotations

import ast
from typing import Dict, List, Optional, Set, Tuple

from ..cfg import CFG, ENTRY
from ..core import FuncInfo, Repo, call_name, dotted, norm, walk_local

GRAPH_MUTATORS = {
    "add_node", "add_nodes_from", "add_edge", "add_edges_from", "add_weighted_edges_from",
    "remove_node", "remove_nodes_from", "remove_edge", "remove_edges_from", "clear", "clear_edges",
    "update", "setdefault", "pop", "popitem", "append", "extend", "insert", "remove", "sort",
    "reverse", "add", "discard", "difference_update", "intersection_update", "__setitem__", "__delitem__",
}
VIEW_ATTRS = {"nodes", "edges", "adj", "graph", "_node", "_adj", "pred", "succ"}
# calls that return an independent copy of their (first) argument / receiver
COPY_FUNCS = {"deepcopy", "copy.deepcopy"}
COPY_CTORS = {"nx.Graph", "nx.DiGraph", "nx.MultiGraph", "nx.MultiDiGraph", "Graph", "DiGraph"}
# external in-place functions: name -> index of the mutated argument
EXTERNAL_INPLACE = {"nx.set_node_attributes": 0, "nx.set_edge_attributes": 0, "set_node_attributes": 0,
                    "set_edge_attributes": 0}


def is_deepcopy(expr: ast.AST) -> bool:
    """deepcopy(x) under any import spelling (deepcopy, copy.deepcopy, alias.deepcopy)."""
    return isinstance(expr, ast.Call) and (dotted(expr.func) or "").split(".")[-1] == "deepcopy"


def is_copy_of(expr: ast.AST, name: str) -> bool:
    """``name.copy()``, ``deepcopy(name)``, ``nx.Graph(name)`` (``copy.copy`` is NOT a copy:
    it shares the node/adjacency dicts of a networkx graph)."""
    if isinstance(expr, ast.Call):
        f = dotted(expr.func) or ""
        if isinstance(expr.func, ast.Attribute) and expr.func.attr == "copy" and dotted(expr.func.value) == name \
                and f != "copy.copy":
            return True
        if is_deepcopy(expr) and expr.args and dotted(expr.args[0]) == name:
            return True
        if f in COPY_CTORS and expr.args and dotted(expr.args[0]) == name:
            return True
    return False


def _root(node: ast.AST) -> Optional[str]:
    """Root name of an attribute/subscript/call chain like ``g.nodes[n]['x']`` or ``g.nodes(data=True)``."""
    while True:
        if isinstance(node, ast.Name):
            return node.id
        if isinstance(node, (ast.Attribute, ast.Subscript, ast.Starred)):
            node = node.value
        elif isinstance(node, ast.Call):
            node = node.func
        else:
            return None


def _is_view_expr(node: ast.AST, roots: Set[str]) -> bool:
    """Expression yields a mutable piece of a graph rooted in ``roots``:
    g.nodes[n], g[u][v], g.nodes(data=True) items, g.graph, g.edges[u, v] ..."""
    if isinstance(node, ast.Name):
        return node.id in roots
    r = _root(node)
    if r not in roots:
        return False
    # a call on a root only yields a view for the graph accessors
    if isinstance(node, ast.Call):
        f = node.func
        if isinstance(f, ast.Attribute) and f.attr in ("nodes", "edges", "items", "values", "get", "adjacency",
                                                       "get_edge_data", "in_edges", "out_edges"):
            return True
        return False
    return True


def mutations(repo: Repo, fi: FuncInfo, param: str, depth: int = 2,
              _seen: Optional[set] = None) -> List[Tuple[ast.AST, str]]:
    _seen = _seen or set()
    if (fi.key, param) in _seen:
        return []
    _seen.add((fi.key, param))
    fn = fi.node
    cfg = CFG(fn)
    out: List[Tuple[ast.AST, str]] = []

    # statements that rebind `param` (or an alias) to a copy
    def kills_for(name):
        ks = []
        for st in cfg.stmts():
            if isinstance(st, ast.Assign) and len(st.targets) == 1 and isinstance(st.targets[0], ast.Name) \
                    and st.targets[0].id == name and is_copy_of(st.value, name):
                ks.append(st)
        return ks

    # aliases: x = param  (plain), views: x = param.nodes[..], for .. in param.nodes(data=True)
    roots: Set[str] = {param}
    views: Set[str] = set()
    alias_stmts: Dict[str, list] = {}   # alias name -> statements `alias = <root>`
    pm0 = {}
    for p_ in ast.walk(fn):
        for c_ in ast.iter_child_nodes(p_):
            pm0[c_] = p_

    def _guards(node):
        out_, child, cur = [], node, pm0.get(node)
        while cur is not None and cur is not fn:
            if isinstance(cur, ast.If):
                if any(x is child for x in cur.body):
                    out_.append((id(cur), True))
                elif any(x is child for x in cur.orelse):
                    out_.append((id(cur), False))
            child, cur = cur, pm0.get(cur)
        return out_

    def _compatible(alias_name, node):
        """some `alias = root` statement can reach `node` (not in the opposite branch of a common `if`)"""
        stmts = alias_stmts.get(alias_name)
        if not stmts:
            return True
        gn = dict(_guards(node))
        for st_ in stmts:
            ga = dict(_guards(st_))
            if not any(k in gn and gn[k] != v for k, v in ga.items()):
                return True
        return False

    changed = True
    while changed:
        changed = False
        for n in walk_local(fn, into_nested=True):
            if isinstance(n, ast.Assign) and len(n.targets) == 1:
                t, v = n.targets[0], n.value
                if isinstance(t, ast.Name):
                    if isinstance(v, ast.Name) and v.id in roots:
                        if n not in alias_stmts.setdefault(t.id, []) and t.id != param:
                            alias_stmts[t.id].append(n)
                        if t.id not in roots:
                            roots.add(t.id); changed = True
                    elif isinstance(v, ast.IfExp) and any(isinstance(b, ast.Name) and b.id in roots for b in (v.body, v.orelse)) \
                            and t.id not in roots and t.id != param:
                        roots.add(t.id); changed = True
                    elif not isinstance(v, ast.Name) and _is_view_expr(v, roots | views) and not _is_copy_call(v) \
                            and t.id not in views and t.id not in roots:
                        views.add(t.id); changed = True
            elif isinstance(n, (ast.For, ast.comprehension)):
                it = n.iter
                if _is_view_expr(it, roots | views) and not isinstance(it, ast.Name):
                    names = [x.id for x in ast.walk(n.target) if isinstance(x, ast.Name)]
                    # only the *data* members can be mutable dicts; node ids are immutable,
                    # but we cannot tell them apart here, so all targets become views
                    for nm in names:
                        if nm not in views and nm not in roots:
                            views.add(nm); changed = True
    live = roots | views
    view_src: Dict[str, str] = {}
    for n_ in walk_local(fn, into_nested=True):
        if isinstance(n_, (ast.For, ast.comprehension)):
            r_ = _root(n_.iter)
            if r_ in roots:
                for x_ in ast.walk(n_.target):
                    if isinstance(x_, ast.Name):
                        view_src.setdefault(x_.id, r_)
        if isinstance(n_, ast.Assign) and len(n_.targets) == 1 and isinstance(n_.targets[0], ast.Name):
            r_ = _root(n_.value)
            if r_ in roots and n_.targets[0].id in views:
                view_src.setdefault(n_.targets[0].id, r_)

    def _alias_root_of(name):
        return name if name in roots else view_src.get(name, name)

    kills = {r: kills_for(r) for r in roots}

    def killed(stmt, name_root) -> bool:
        ks = kills.get(name_root, [])
        if not ks or stmt is None:
            return False
        return cfg.all_paths_pass(ENTRY, stmt, ks) and stmt not in ks

    pm = {}
    for p in ast.walk(fn):
        for c in ast.iter_child_nodes(p):
            pm[c] = p

    def stmt_of(node):
        while node in pm and not isinstance(node, ast.stmt):
            node = pm[node]
        return node

    def root_param_of(name):
        return name if name in roots else None

    for n in walk_local(fn, into_nested=True):
        # method mutators
        if isinstance(n, ast.Call) and isinstance(n.func, ast.Attribute) and n.func.attr in GRAPH_MUTATORS:
            recv = n.func.value
            r = _root(recv)
            if r in live and (_is_view_expr(recv, live)):
                if r in roots and killed(stmt_of(n), r):
                    continue
                if not _compatible(_alias_root_of(r), n):
                    continue
                # `.copy()`-like receivers are not views
                if _is_copy_call(recv):
                    continue
                # plain (non-graph) set/list/dict methods on the *name itself* only matter if it is a root/view
                out.append((n, f"{norm(n.func)}(...) mutates `{param}`" + ("" if r == param else f" through `{r}`")))
        # item / attribute assignment, augmented assignment, del
        targets = []
        if isinstance(n, ast.Assign):
            targets = n.targets
        elif isinstance(n, (ast.AugAssign, ast.AnnAssign)):
            targets = [n.target]
        elif isinstance(n, ast.Delete):
            targets = n.targets
        for t in targets:
            for tt in (t.elts if isinstance(t, (ast.Tuple, ast.List)) else [t]):
                if isinstance(tt, (ast.Subscript, ast.Attribute)):
                    r = _root(tt)
                    if r in live and not (r in roots and killed(stmt_of(n), r)) and _compatible(_alias_root_of(r), n):
                        if isinstance(tt, ast.Attribute) and isinstance(tt.value, ast.Name) and tt.value.id == "self":
                            continue
                        out.append((n, f"`{norm(tt)} = ...` writes into `{param}`" + ("" if r == param else f" through `{r}`")))
        # passing to an in-place external / intra-repo callee
        if isinstance(n, ast.Call):
            f = dotted(n.func) or ""
            if f in EXTERNAL_INPLACE:
                i = EXTERNAL_INPLACE[f]
                if i < len(n.args) and _root(n.args[i]) in roots and not killed(stmt_of(n), _root(n.args[i])):
                    out.append((n, f"{f} writes attributes into `{param}`"))
            if f in ("nx.relabel_nodes", "relabel_nodes"):
                cp = [k for k in n.keywords if k.arg == "copy"]
                if cp and isinstance(cp[0].value, ast.Constant) and cp[0].value.value is False \
                        and n.args and _root(n.args[0]) in roots:
                    out.append((n, f"relabel_nodes(copy=False) relabels `{param}` in place"))
            if depth > 0:
                callee = _resolve(repo, fi, n)
                if callee is not None:
                    for i, a in enumerate(n.args):
                        if isinstance(a, ast.Name) and a.id in roots and not killed(stmt_of(n), a.id):
                            cparams = callee.params
                            off = 1 if (callee.cls is not None and cparams and cparams[0] in ("self", "cls")
                                        and not _is_static(callee)) else 0
                            if i + off < len(cparams):
                                sub = mutations(repo, callee, cparams[i + off], depth - 1, _seen)
                                for node, why in sub:
                                    out.append((n, f"passes `{param}` to {callee.qual} which mutates it: {why}"))
                                    break
                    for k in n.keywords:
                        if k.arg and isinstance(k.value, ast.Name) and k.value.id in roots and k.arg in callee.params \
                                and not killed(stmt_of(n), k.value.id):
                            sub = mutations(repo, callee, k.arg, depth - 1, _seen)
                            for node, why in sub:
                                out.append((n, f"passes `{param}` to {callee.qual} which mutates it: {why}"))
                                break
    # de-duplicate by node
    seen, res = set(), []
    for node, why in sorted(out, key=lambda t: (t[0].lineno, t[0].col_offset)):
        if id(node) in seen:
            continue
        seen.add(id(node))
        res.append((node, why))
    return res


def _is_copy_call(node: ast.AST) -> bool:
    if isinstance(node, ast.Call):
        f = dotted(node.func) or ""
        if isinstance(node.func, ast.Attribute) and node.func.attr in ("copy", "to_undirected", "to_directed", "subgraph"):
            return node.func.attr != "subgraph"
        if is_deepcopy(node) or f in COPY_CTORS or f in ("dict", "list", "set", "tuple", "sorted"):
            return True
    return False


def _is_static(fi: FuncInfo) -> bool:
    return any(dotted(d) == "staticmethod" for d in fi.node.decorator_list)


def _resolve(repo: Repo, fi: FuncInfo, call: ast.Call) -> Optional[FuncInfo]:
    """Resolve a call to a function of the analysed package (same module, same
    class via self/cls/ClassName, or imported from another synkit module)."""
    f = call.func
    mi = fi.module
    if isinstance(f, ast.Name):
        if f.id in mi.funcs:
            return mi.funcs[f.id]
        imp = mi.imports.get(f.id)
        if imp and imp.startswith(repo.package + "."):
            return _lookup_import(repo, imp)
        return None
    if isinstance(f, ast.Attribute):
        base = dotted(f.value)
        if base in ("self", "cls") and fi.cls is not None:
            return mi.funcs.get(f"{fi.cls.name}.{f.attr}")
        if base and f"{base}.{f.attr}" in mi.funcs:
            return mi.funcs[f"{base}.{f.attr}"]
        if base:
            imp = mi.imports.get(base)
            if imp and imp.startswith(repo.package + "."):
                target = _lookup_import(repo, imp + "." + f.attr, cls_method=True)
                if target:
                    return target
    return None


def _lookup_import(repo: Repo, dotted_name: str, cls_method: bool = False) -> Optional[FuncInfo]:
    parts = dotted_name.split(".")
    # try module path prefixes: a/b/c.py : rest
    for cut in range(len(parts) - 1, 0, -1):
        rel = "/".join(parts[:cut]) + ".py"
        rel_pkg = "/".join(parts[:cut]) + "/__init__.py"
        for r in (rel, rel_pkg):
            mi = repo.modules.get(r)
            if mi is None:
                continue
            qual = ".".join(parts[cut:])
            if qual in mi.funcs:
                repo.consulted[r] = mi.digest()
                return mi.funcs[qual]
            # re-exported name from a package __init__
            first = parts[cut]
            imp = mi.imports.get(first)
            if imp and imp != dotted_name:
                base = imp
                if imp.startswith("."):
                    lvl = len(imp) - len(imp.lstrip("."))
                    pkg_parts = r.split("/")[:-1]
                    if lvl > 1:
                        pkg_parts = pkg_parts[: -(lvl - 1)]
                    base = ".".join(pkg_parts) + "." + imp.lstrip(".")
                rest = parts[cut + 1:]
                res = _lookup_import(repo, ".".join([base] + rest))
                if res:
                    return res
    return None
