"""A Weisfeiler-Lehman hash is an incomplete invariant: equal hashes do not imply isomorphic graphs (and with a bounded number of refinement
rounds, differences further away than that are invisible).  It may reject (different hash -> not isomorphic) and it may bucket candidates
for an exact test, but a result must not be dropped, merged or answered from a store because its hash was seen before.

`wl_equality_as_identity(fi)` reports, inside one function:
  * a loop item skipped (`continue`) / a value returned under a membership test `h in seen` where `h` comes from a WL hash call and `seen`
    is a local set / dict filled with such hashes, with no exact test (is_isomorphic / == on graphs) in the same guard;
  * a dict comprehension / dict store keyed by a WL hash whose values are single results (last or first wins), when only `.values()` of it is used.
"""
from __future__ import annotations

import ast
from typing import List, Tuple

from ..core import FuncInfo, call_name, local_defs, norm, parent_map, walk_local
from .provenance import all_roots

WL_NAMES = ("weisfeiler_lehman_graph_hash", "weisfeiler_lehman_subgraph_hashes", "wl_hash", "_wl1_hash", "_wl_hash")
EXACT = ("is_isomorphic", "isomorphic", "graph_isomorphism", "could_be_isomorphic_exact", "subgraph_is_isomorphic")


def _is_wl(e: ast.AST) -> bool:
    return isinstance(e, ast.Call) and any(w in (call_name(e) or "") for w in ("weisfeiler_lehman", "wl_hash", "wl1_hash"))


def wl_equality_as_identity(fi: FuncInfo) -> List[Tuple[ast.AST, str]]:
    fn = fi.node
    if not any(_is_wl(n) for n in walk_local(fn, into_nested=True)):
        return []
    defs = local_defs(fn)
    pm = parent_map(fn)
    out = []

    def from_wl(e) -> bool:
        return any(_is_wl(r) for r in all_roots(defs, e))

    # containers that receive WL hashes: S.add(h) / S[h] = .. / S.setdefault(h, ..)
    holders = set()
    for n in walk_local(fn):
        if isinstance(n, ast.Call) and isinstance(n.func, ast.Attribute) and isinstance(n.func.value, ast.Name) and n.func.attr in ("add", "setdefault", "append") \
                and n.args and from_wl(n.args[0]):
            holders.add(n.func.value.id)
        elif isinstance(n, ast.Assign):
            for t in n.targets:
                if isinstance(t, ast.Subscript) and isinstance(t.value, ast.Name) and from_wl(t.slice):
                    holders.add(t.value.id)
    for n in walk_local(fn):
        if isinstance(n, ast.If):
            tests = n.test.values if isinstance(n.test, ast.BoolOp) else [n.test]
            hit = [t for t in tests if isinstance(t, ast.Compare) and len(t.ops) == 1 and isinstance(t.ops[0], ast.In)
                   and isinstance(t.comparators[0], ast.Name) and t.comparators[0].id in holders and from_wl(t.left)]
            if not hit:
                continue
            if any(isinstance(c, ast.Call) and call_name(c) in EXACT for t in tests for c in ast.walk(t)):
                continue
            leaves = [s for s in n.body if isinstance(s, (ast.Continue, ast.Return, ast.Break))]
            if leaves and len(n.body) == len(leaves):
                out.append((n, f"`{norm(hit[0])}`: an item whose WL hash was seen before is skipped without an exact comparison"))
    for n in walk_local(fn):
        if isinstance(n, ast.DictComp) and from_wl(n.key):
            par = pm.get(n)
            if isinstance(par, ast.Attribute) and par.attr == "values":
                out.append((n, "`{wl_hash(g): g ...}.values()`: results with equal WL hash are merged without an exact comparison"))
    return out
