"""R11 - id-order selection.

A *selection* picks one candidate out of several (``max/min(X, key=..)``,
``sorted(X, key=..)[0]``, ``next(iter(X))``).  On a decision path whose outcome
must not depend on node numbering, the tie-break of a selection must not fall
to node identifiers or to container iteration order.  Sorting identifiers only
to canonicalise a collection that is then used *as a whole* is not a selection.
"""
from __future__ import annotations

import ast
from typing import List, Tuple

from ..core import FuncInfo, alpha, call_name, kwarg, local_defs, norm, origin, parent_map, walk_local


def selections(fi: FuncInfo) -> List[Tuple[ast.AST, str, str]]:
    """[(node, kind, tie_break, text)] with tie_break in {'id', 'iteration-order', 'total'}; ``text`` is the selection with
    its source resolved and local names alpha-normalised (a stable key for the construct)"""
    out = []
    fn = fi.node
    defs = local_defs(fn)
    pm = parent_map(fn)
    for n in walk_local(fn):
        # sorted(X, key=K)[0]  /  name = sorted(..); name[0]
        if isinstance(n, ast.Subscript) and isinstance(n.slice, ast.Constant) and n.slice.value in (0, -1):
            src = origin(defs, n.value)
            if isinstance(src, ast.Call) and isinstance(src.func, ast.Name) and src.func.id == "sorted":
                out.append((n, "sorted(...)[0]", _tie(src), _selection_text(src, "smallest" if n.slice.value == 0 else "largest", fn)))
            elif isinstance(src, ast.Call) and isinstance(n.ctx, ast.Load) and call_name(src) not in ("split", "partition", "rsplit", "groups", "shape"):
                # first / last element of a collection produced elsewhere: whatever order the producer happens to use decides
                out.append((n, "<call>(...)[0]", "iteration-order", alpha(src, fn) + f"[{n.slice.value}]"))
        if isinstance(n, ast.Call) and isinstance(n.func, ast.Name) and n.func.id in ("max", "min") and len(n.args) == 1:
            arg = n.args[0]
            # min(c) over a set of ids used *inside a key* is handled by the enclosing selection
            par = pm.get(n)
            inside_key = False
            cur = par
            while cur is not None and cur is not fn:
                if isinstance(cur, ast.Lambda):
                    inside_key = True
                cur = pm.get(cur)
            if inside_key:
                continue
            if isinstance(arg, ast.GeneratorExp):
                continue  # max over computed numbers, not a choice among candidates
            out.append((n, f"{n.func.id}(...)", _tie(n), _selection_text(n, "smallest" if n.func.id == "min" else "largest", fn)))
        if isinstance(n, ast.Call) and isinstance(n.func, ast.Name) and n.func.id == "next" and n.args \
                and isinstance(n.args[0], ast.Call) and call_name(n.args[0]) == "iter":
            out.append((n, "next(iter(...))", "iteration-order", alpha(n, fn)))
    return out


def _selection_text(call: ast.Call, which: str, fn) -> str:
    """what is selected, independent of the idiom: `sorted(X, key=K)[0]` and `min(X, key=K)` pick the same element"""
    key = kwarg(call, "key")
    coll = alpha(_positional_params(call.args[0], fn), fn) if call.args else "?"
    if key is None:
        return f"{which} of {coll} (elements compared directly)"
    if isinstance(key, ast.Lambda):
        txt = alpha(key, fn)   # "lambda _k: <body>"
        return f"{which} of {coll} by key {txt.split(':', 1)[1].strip() if ':' in txt else txt} (as a function of {txt.split(':', 1)[0].replace('lambda', '').strip()})"
    return f"{which} of {coll} by key {alpha(key, fn)}"


def _positional_params(e, fn):
    """`e` with the parameters of `fn` written by position (<arg1>, <arg2>, ..): the text keys a finding, and a renamed parameter is the same construct"""
    import copy
    a = fn.args
    names = [x.arg for x in a.posonlyargs + a.args]
    if names and names[0] in ("self", "cls"):
        names = names[1:]
    pos = {nm: f"arg{i + 1}" for i, nm in enumerate(names)}

    class T(ast.NodeTransformer):
        def visit_Name(self, n):
            return ast.copy_location(ast.Name(id=pos[n.id], ctx=n.ctx), n) if n.id in pos else n
    return T().visit(copy.deepcopy(e))


def _tie(call: ast.Call) -> str:
    key = kwarg(call, "key")
    if key is None:
        return "id"  # elements themselves (sets of ids / ids) are compared
    if isinstance(key, ast.Name) and key.id == "len":
        return "iteration-order"
    if isinstance(key, ast.Lambda):
        a = key.args.args[0].arg
        body = key.body
        elts = body.elts if isinstance(body, ast.Tuple) else [body]
        txt = [norm(e).replace(" ", "") for e in elts]
        if any(t.startswith(f"min({a})") or t.startswith(f"max({a})") or t == a or t.startswith(f"sorted({a})") or t.startswith(f"tuple(sorted({a}))")
               or f"min({a})" in t for t in txt):
            return "id"
        if all(t in (f"len({a})", f"-len({a})") for t in txt):
            return "iteration-order"
        return "total"
    return "total"
