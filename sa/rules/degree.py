"""Fixed-degree assumptions: unpacking the neighbours of an atom into a fixed number of targets (`(p,) = G.neighbors(h)`), or taking
`next(iter(G.neighbors(h)))` / `list(G.neighbors(h))[0]`, assumes the atom has exactly (at least) that many neighbours.  In this code base
that is false for hydrogens in general: free protons / hydrides / H radicals have no bond on one side of a reaction, bridging hydrogens
have two.  The construct is reported unless a test on the degree / the number of neighbours guards it."""
from __future__ import annotations

import ast
from typing import List, Tuple

from ..core import call_name, norm, parent_map, walk_local
from ..facts import guards_of

NEIGHBOUR_CALLS = {"neighbors", "successors", "predecessors", "all_neighbors"}


def _nbr_call(e) -> bool:
    while isinstance(e, ast.Call) and isinstance(e.func, ast.Name) and e.func.id in ("list", "tuple", "iter", "sorted", "set") and len(e.args) == 1:
        e = e.args[0]
    return isinstance(e, ast.Call) and isinstance(e.func, ast.Attribute) and e.func.attr in NEIGHBOUR_CALLS


def fixed_degree_assumptions(fn: ast.AST) -> List[Tuple[ast.AST, str]]:
    pm = parent_map(fn)
    out = []

    def guarded(node) -> bool:
        for t, s in guards_of(pm, node, fn, early=True):
            txt = norm(t)
            if "degree" in txt or "len(" in txt or "number_of" in txt:
                return True
        return False
    for n in walk_local(fn):
        if isinstance(n, ast.Assign) and len(n.targets) == 1 and isinstance(n.targets[0], (ast.Tuple, ast.List)) \
                and not any(isinstance(e, ast.Starred) for e in n.targets[0].elts) and _nbr_call(n.value) and not guarded(n):
            out.append((n, f"the neighbours are unpacked into exactly {len(n.targets[0].elts)} name(s)"))
        elif isinstance(n, ast.Call) and isinstance(n.func, ast.Name) and n.func.id == "next" and len(n.args) == 1 and _nbr_call(n.args[0]) and not guarded(n):
            out.append((n, "next(..) of the neighbours without a default assumes at least one neighbour"))
        elif isinstance(n, ast.Subscript) and isinstance(n.slice, ast.Constant) and isinstance(n.slice.value, int) and _nbr_call(n.value) \
                and isinstance(n.value, ast.Call) and isinstance(n.value.func, ast.Name) and not guarded(n):
            out.append((n, f"element [{n.slice.value}] of the neighbour list assumes it exists"))
    return out
