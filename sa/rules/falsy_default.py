"""`p = p or <fresh container>` on a parameter that the function then mutates.

An EMPTY container is falsy: a caller that passes its own (still empty) set / list / dict to have it filled gets a private copy
filled instead, and its bookkeeping silently stays empty.  The correct idiom is `if p is None: p = set()`.
The rule reports the construct only when it matters: some caller in the analysed package passes a variable for that parameter and
uses that variable again afterwards (or passes it again on a later loop iteration)."""
from __future__ import annotations

import ast
from typing import List, Tuple

from ..core import FuncInfo, Repo, call_name, norm, walk_local, parent_map
from ..facts import enclosing_loops
from ..pattern import pmatch

FRESH = ("set()", "[]", "{}", "dict()", "list()", "defaultdict($$x)", "OrderedDict()", "deque()")
MUTATORS = {"add", "append", "extend", "update", "insert", "setdefault", "pop", "remove", "discard", "clear", "appendleft"}


def sites(repo: Repo, rels) -> List[Tuple[FuncInfo, ast.AST, str, list]]:
    """[(function, rebinding statement, parameter, [caller call nodes that rely on the mutation])]"""
    out = []
    for rel in rels:
        mi = repo.module(rel)
        for fi in mi.funcs.values():
            for st in walk_local(fi.node):
                if not (isinstance(st, ast.Assign) and len(st.targets) == 1 and isinstance(st.targets[0], ast.Name)):
                    continue
                p = st.targets[0].id
                if p not in fi.params:
                    continue
                if not any(pmatch(f"{p} or {fresh}", st.value) is not None for fresh in FRESH):
                    continue
                muts = [c for c in walk_local(fi.node) if isinstance(c, ast.Call) and isinstance(c.func, ast.Attribute) and norm(c.func.value) == p
                        and c.func.attr in MUTATORS and c.lineno > st.lineno]
                muts += [n for n in walk_local(fi.node) if isinstance(n, ast.Assign) and any(isinstance(t, ast.Subscript) and norm(t.value) == p for t in n.targets)]
                if not muts:
                    continue
                idx = fi.params.index(p)
                relying = []
                for caller in mi.funcs.values():
                    pm = None
                    for c in walk_local(caller.node):
                        if not (isinstance(c, ast.Call) and call_name(c) == fi.qual.split(".")[-1]):
                            continue
                        off = 1 if (fi.params and fi.params[0] in ("self", "cls") and isinstance(c.func, ast.Attribute)) else 0
                        arg = None
                        if len(c.args) > idx - off >= 0:
                            arg = c.args[idx - off]
                        for k in c.keywords:
                            if k.arg == p:
                                arg = k.value
                        if not isinstance(arg, ast.Name):
                            continue
                        pm = pm or parent_map(caller.node)
                        later = [n for n in walk_local(caller.node) if isinstance(n, ast.Name) and n.id == arg.id and isinstance(n.ctx, ast.Load)
                                 and n is not arg and n.lineno >= c.lineno]
                        if later or enclosing_loops(pm, c, caller.node):
                            relying.append((caller, c))
                out.append((fi, st, p, relying))
    return out


def falsy_numeric_defaults(fn: ast.AST):
    """`<lookup> or <non-zero number>`: a stored 0 (a legal value: zero flow, zero charge, zero count) is replaced by the default, because the
    default is chosen by truthiness instead of by presence.  [(node, text)]"""
    out = []
    for x in walk_local(fn, into_nested=True):
        if isinstance(x, ast.BoolOp) and isinstance(x.op, ast.Or) and len(x.values) == 2:
            a, c = x.values
            is_lookup = (isinstance(a, ast.Call) and isinstance(a.func, ast.Attribute) and a.func.attr == "get") or isinstance(a, ast.Subscript)
            if is_lookup and isinstance(c, ast.Constant) and isinstance(c.value, (int, float)) and not isinstance(c.value, bool) and c.value:
                out.append((x, f"`{norm(a)}` equal to 0 becomes {c.value!r}"))
    return out
