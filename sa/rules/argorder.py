"""Swapped positional arguments: a call f(.., a, .., b, ..) to a function of the same module whose parameters at those two positions are named
(.., b, .., a, ..) - both names exist on both sides, each at the other's position.  A mutual swap of two like-named values is (almost) never
intended; same-typed values swapped this way pass every type check and most tests."""
from __future__ import annotations

import ast
from typing import List, Tuple

from ..core import FuncInfo, norm, walk_local


def _arg_name(a):
    if isinstance(a, ast.Name):
        return a.id
    if isinstance(a, ast.Attribute) and isinstance(a.value, ast.Name) and a.value.id in ("self", "cls"):
        return a.attr.lstrip("_")
    return None


def _resolved_calls(fi: FuncInfo, min_args: int):
    """(call, target FuncInfo, positional parameter names) for calls resolved inside the module (plain name, self./cls. method, Class.method)"""
    mi = fi.module
    for c in walk_local(fi.node, into_nested=True):
        if not isinstance(c, ast.Call) or len(c.args) < min_args or any(isinstance(a, ast.Starred) for a in c.args):
            continue
        f = c.func
        target = None
        if isinstance(f, ast.Name):
            target = mi.funcs.get(f.id) or (mi.funcs.get(f"{f.id}.__init__") if f.id in mi.classes else None)
        elif isinstance(f, ast.Attribute) and isinstance(f.value, ast.Name):
            if f.value.id in ("self", "cls") and fi.cls is not None:
                target = mi.funcs.get(f"{fi.cls.name}.{f.attr}")
            elif f.value.id in mi.classes:
                target = mi.funcs.get(f"{f.value.id}.{f.attr}")
        if target is None:
            continue
        params = list(target.params)
        if params and params[0] in ("self", "cls") and "staticmethod" not in [norm(d) for d in target.node.decorator_list]:
            params = params[1:]
        yield c, target, params


def misbound_positional(fi: FuncInfo) -> List[Tuple[ast.Call, str]]:
    """a positional argument that is a plain name equal to one of the callee's parameter names, but sits at ANOTHER parameter's position
    (typically after a parameter was inserted into the middle of the callee's signature while a caller kept passing by position).
    One-letter names are exempt (end points are swapped on purpose).  Zero sites on the pinned tree, package-wide."""
    out = []
    for c, target, params in _resolved_calls(fi, 1):
        names = [_arg_name(a) for a in c.args]
        for i, nm in enumerate(names):
            if nm and len(nm) > 1 and i < len(params) and nm != params[i] and nm in params:
                out.append((c, f"argument {i} `{norm(c.args[i])}` is bound to parameter `{params[i]}` of {target.qual}, which has a parameter `{nm}` at position {params.index(nm)}"))
    return out


def swapped_positional(fi: FuncInfo) -> List[Tuple[ast.Call, str]]:
    mi = fi.module
    out = []
    for c in walk_local(fi.node, into_nested=True):
        if not isinstance(c, ast.Call) or len(c.args) < 2 or any(isinstance(a, ast.Starred) for a in c.args):
            continue
        f = c.func
        target = None
        if isinstance(f, ast.Name):
            target = mi.funcs.get(f.id) or (mi.funcs.get(f"{f.id}.__init__") if f.id in mi.classes else None)
        elif isinstance(f, ast.Attribute) and isinstance(f.value, ast.Name):
            if f.value.id in ("self", "cls") and fi.cls is not None:
                target = mi.funcs.get(f"{fi.cls.name}.{f.attr}")
            elif f.value.id in mi.classes:
                target = mi.funcs.get(f"{f.value.id}.{f.attr}")
        if target is None:
            continue
        params = list(target.params)
        if params and params[0] in ("self", "cls") and not (isinstance(f, ast.Attribute) and isinstance(f.value, ast.Name) and f.value.id in mi.classes
                                                            and not any(norm(d) == "staticmethod" for d in target.node.decorator_list) and False):
            deco = [norm(d) for d in target.node.decorator_list]
            if "staticmethod" not in deco:
                params = params[1:]
        names = [_arg_name(a) for a in c.args]
        for i in range(min(len(names), len(params))):
            for j in range(i + 1, min(len(names), len(params))):
                if names[i] and names[j] and names[i] != names[j] and names[i] == params[j] and names[j] == params[i]:
                    out.append((c, f"arguments {i} and {j} (`{norm(c.args[i])}`, `{norm(c.args[j])}`) meet parameters `{params[i]}`, `{params[j]}` of {target.qual}"))
    return out
