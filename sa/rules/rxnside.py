"""`RXNSide` behaves like a mapping but is NOT a `collections.abc.Mapping`: `RXNSide.from_any(x)` / `RXNSide(x)` / `_normalize_any(x)` take the
`isinstance(obj, Mapping)` branch only for real mappings and otherwise iterate `x` - iterating an RXNSide yields its species labels, so every
coefficient becomes 1.  A call that can receive an RXNSide (the `.reactants` / `.products` of a hyperedge, directly or through a parameter
that callers in the module fill with them) therefore flattens the stoichiometry, unless it sits under an `isinstance(x, RXNSide)` exclusion
or the normaliser itself recognises RXNSide."""
from __future__ import annotations

import ast
from typing import List, Tuple

from ..core import FuncInfo, Repo, call_name, local_defs, norm, parent_map, walk_local
from ..facts import guards_of
from .provenance import all_roots

RX = "synkit/CRN/Hypergraph/rxn.py"


def normaliser_handles_rxnside(repo: Repo) -> bool:
    fi = repo.maybe_func(RX, "RXNSide._normalize_any")
    if fi is None:
        return False
    for c in walk_local(fi.node):
        if isinstance(c, ast.Call) and call_name(c) == "isinstance" and len(c.args) == 2 and "RXNSide" in norm(c.args[1]):
            return True
        if isinstance(c, ast.Call) and call_name(c) == "hasattr" and len(c.args) == 2 and norm(c.args[1]) in ("'items'", "'data'", "'to_dict'"):
            return True
    cls = repo.module(RX).classes.get("RXNSide")
    return cls is not None and any("Mapping" in norm(b) for b in cls.bases)


def _side_valued(fi: FuncInfo, expr: ast.AST, defs, depth: int = 1) -> bool:
    for r in all_roots(defs, expr):
        if isinstance(r, ast.Attribute) and r.attr in ("reactants", "products"):
            return True
        if isinstance(r, ast.Call) and call_name(r) == "getattr" and len(r.args) >= 2 and isinstance(r.args[1], ast.Constant) and r.args[1].value in ("reactants", "products"):
            return True
        if isinstance(r, ast.Name) and r.id in fi.params and depth > 0:
            idx = [p for p in fi.params if p not in ("self", "cls")].index(r.id) if r.id in [p for p in fi.params if p not in ("self", "cls")] else None
            name = fi.qual.split(".")[-1]
            for g in fi.module.funcs.values():
                gd = None
                for c in walk_local(g.node, into_nested=True):
                    if isinstance(c, ast.Call) and call_name(c) == name and idx is not None and idx < len(c.args):
                        gd = gd or local_defs(g.node)
                        if _side_valued(g, c.args[idx], gd, depth - 1):
                            return True
    return False


def flattening_sites(repo: Repo, fi: FuncInfo) -> List[Tuple[ast.AST, str]]:
    if normaliser_handles_rxnside(repo):
        return []
    defs = local_defs(fi.node)
    pm = parent_map(fi.node)
    out = []
    for c in walk_local(fi.node, into_nested=True):
        if not (isinstance(c, ast.Call) and c.args):
            continue
        f = norm(c.func)
        if not (f in ("RXNSide.from_any", "RXNSide", "RXNSide._normalize_any", "cls.from_any", "cls._normalize_any") or f.endswith(".RXNSide.from_any")):
            continue
        x = c.args[0]
        if not _side_valued(fi, x, defs):
            continue
        excluded = any((not sense) and isinstance(t, ast.Call) and call_name(t) == "isinstance" and len(t.args) == 2 and "RXNSide" in norm(t.args[1])
                       and norm(t.args[0]) == norm(x) for t, sense in guards_of(pm, c, fi.node))
        if not excluded:
            out.append((c, f"`{norm(c)[:60]}` can receive an RXNSide: it is not a Mapping, the normaliser iterates its labels and every coefficient becomes 1"))
    return out
