"""Provenance of a value inside one function: which expressions can it come from?

`all_roots` follows a name through ALL of its definitions (flow-insensitive, so it over-approximates the reaching definitions), through tuple
positions, conditional expressions, `or` alternatives, copies (`list(x)`, `dict(x)`, `[dict(m) for m in x]`) and comprehension targets.

`persistent_lookups` picks the roots that read a container which outlives the call - a module-level container that the module also mutates
(a process-wide memo), or a container held by `self` / `cls` - together with the key of the lookup.

`key_identifies_objects` classifies such a key for values that carry node identifiers of concrete graphs (mappings, orbits, anchors): the
key must pin the concrete objects.  A component that is an object of a repository class comparing / hashing by a canonical digest
(`__eq__` / `__hash__` through `signature`, `canonical...`, `...hash`), or such a digest itself, is equal for differently numbered
copies: a hit then glues node ids of one numbering onto another."""
from __future__ import annotations

import ast
from typing import Dict, List, Optional, Tuple

from ..core import FuncInfo, Repo, call_name, local_defs, norm, walk_local

COPIES = {"list", "tuple", "dict", "set", "frozenset", "sorted", "deepcopy", "copy", "int", "float", "abs", "round", "reversed", "enumerate"}
LOOKUP_METHODS = {"get", "pop", "setdefault", "__getitem__"}
DIGEST_WORDS = ("signature", "canonical", "hash", "smiles", "digest", "fingerprint")


def all_roots(defs, expr: ast.AST, limit: int = 200, through_copies: bool = True) -> List[ast.AST]:
    out: List[ast.AST] = []
    seen = set()
    work = [expr]
    while work and limit > 0:
        limit -= 1
        e = work.pop()
        if id(e) in seen:
            continue
        seen.add(id(e))
        if isinstance(e, ast.Name):
            ds = defs.get(e.id, [])
            if not ds:
                out.append(e)
                continue
            for d in ds:
                if d.kind == "param" or d.value is None:
                    out.append(e)
                elif d.kind == "unpack":
                    v = d.value
                    for i in d.index or ():
                        if isinstance(v, (ast.Tuple, ast.List)) and 0 <= i < len(v.elts):
                            v = v.elts[i]
                        else:
                            break
                    work.append(v)
                else:
                    work.append(d.value)
        elif isinstance(e, ast.IfExp):
            work += [e.body, e.orelse]
        elif isinstance(e, ast.BoolOp):
            work += list(e.values)
        elif isinstance(e, (ast.Tuple, ast.List, ast.Set)):
            work += list(e.elts)
        elif isinstance(e, ast.Starred):
            work.append(e.value)
        elif isinstance(e, ast.Subscript) and not _is_lookup(e):
            work.append(e.value)
        elif isinstance(e, (ast.ListComp, ast.SetComp, ast.GeneratorExp)):
            work.append(e.elt)
            work += [g.iter for g in e.generators]
        elif isinstance(e, ast.DictComp):
            work += [e.key, e.value] + [g.iter for g in e.generators]
        elif isinstance(e, ast.Call) and call_name(e) in COPIES and e.args and not isinstance(e.func, ast.Attribute):
            if through_copies or call_name(e) not in ("deepcopy", "copy", "dict", "list", "set"):
                work.append(e.args[0])
            else:
                out.append(e)
        elif isinstance(e, ast.Call) and isinstance(e.func, ast.Attribute) and e.func.attr in ("copy", "items", "values", "keys") and not e.args:
            if through_copies or e.func.attr != "copy":
                work.append(e.func.value)
            else:
                out.append(e)
        elif isinstance(e, ast.NamedExpr):
            work.append(e.value)
        else:
            out.append(e)
    return out


def _is_lookup(e: ast.AST) -> bool:
    return isinstance(e, ast.Subscript) and not isinstance(e.slice, (ast.Slice, ast.Constant))


def module_memos(mi) -> Dict[str, ast.AST]:
    """module-level names bound to a container and mutated somewhere in the module (item store, mutator call): process-wide state"""
    cached = getattr(mi, "_module_memos", None)
    if cached is not None:
        return cached
    cands = {}
    for st in mi.tree.body:
        tg, val = None, None
        if isinstance(st, ast.Assign) and len(st.targets) == 1 and isinstance(st.targets[0], ast.Name):
            tg, val = st.targets[0].id, st.value
        elif isinstance(st, ast.AnnAssign) and isinstance(st.target, ast.Name) and st.value is not None:
            tg, val = st.target.id, st.value
        if tg is None:
            continue
        if isinstance(val, (ast.Dict, ast.List, ast.Set)) or (isinstance(val, ast.Call) and call_name(val) in
                                                                 ("dict", "list", "set", "OrderedDict", "defaultdict", "WeakKeyDictionary", "WeakValueDictionary", "LRUCache", "Counter", "deque")):
            cands[tg] = st
    mutated = {}
    for n in ast.walk(mi.tree):
        if isinstance(n, (ast.Assign, ast.AugAssign)):
            for t in (n.targets if isinstance(n, ast.Assign) else [n.target]):
                if isinstance(t, ast.Subscript) and isinstance(t.value, ast.Name) and t.value.id in cands:
                    mutated[t.value.id] = cands[t.value.id]
        elif isinstance(n, ast.Call) and isinstance(n.func, ast.Attribute) and isinstance(n.func.value, ast.Name) and n.func.value.id in cands \
                and n.func.attr in ("setdefault", "update", "append", "add", "extend", "insert", "pop", "popitem", "clear", "move_to_end", "__setitem__"):
            mutated[n.func.value.id] = cands[n.func.value.id]
    try:
        mi._module_memos = mutated
    except Exception:
        pass
    return mutated


def persistent_lookups(fi: FuncInfo, roots: List[ast.AST], defs, depth: int = 1) -> List[Tuple[ast.AST, str, Optional[ast.AST]]]:
    """[(root, container text, key expression)] for roots that read process-wide or object-level containers"""
    memos = module_memos(fi.module)
    out = []
    for r in roots:
        cont, key = None, None
        # one level through a helper of the same module / class whose result comes out of such a container: `_memo_get(key)`, `self._lookup(k)`
        if depth > 0 and isinstance(r, ast.Call) and not any(isinstance(a, ast.Starred) for a in r.args):
            callee = None
            if isinstance(r.func, ast.Name):
                callee = fi.module.funcs.get(r.func.id)
            elif isinstance(r.func, ast.Attribute) and isinstance(r.func.value, ast.Name) and r.func.value.id in ("self", "cls") and fi.cls is not None:
                callee = fi.module.funcs.get(f"{fi.cls.name}.{r.func.attr}")
            if callee is not None:
                cdefs = local_defs(callee.node)
                params = [p_ for p_ in callee.params if p_ not in ("self", "cls")]
                bound = {params[i]: a for i, a in enumerate(r.args) if i < len(params)}
                bound.update({k.arg: k.value for k in r.keywords if k.arg})
                rets = [x for x in walk_local(callee.node) if isinstance(x, ast.Return) and x.value is not None]
                croots = [y for x in rets for y in all_roots(cdefs, x.value)]
                for r2, cont2, key2 in persistent_lookups(callee, croots, cdefs, depth - 1):
                    k2 = key2
                    if isinstance(k2, ast.Name) and k2.id in bound and len(cdefs.get(k2.id, [])) == 1:
                        k2 = bound[k2.id]
                    else:
                        k2 = None if k2 is not None and any(isinstance(n, ast.Name) and n.id in params for n in ast.walk(k2)) else k2
                    out.append((r, cont2, k2))
                continue
        if isinstance(r, ast.Call) and isinstance(r.func, ast.Attribute) and r.func.attr in LOOKUP_METHODS and r.args:
            cont, key = r.func.value, r.args[0]
        elif isinstance(r, ast.Subscript):
            cont, key = r.value, r.slice
        if cont is None:
            continue
        if isinstance(cont, ast.Name) and cont.id in memos and cont.id not in defs:
            out.append((r, cont.id, key))
        elif isinstance(cont, ast.Attribute) and isinstance(cont.value, ast.Name) and cont.value.id in ("self", "cls"):
            out.append((r, norm(cont), key))
    return out


def _class_of_annotation(repo: Repo, mi, ann: Optional[ast.AST]):
    """(module info, ClassDef) for an annotation that names a class of the package (through the module's imports)"""
    if ann is None:
        return None
    names = [n.id for n in ast.walk(ann) if isinstance(n, ast.Name)] + [n.value for n in ast.walk(ann) if isinstance(n, ast.Constant) and isinstance(n.value, str)]
    for nm in names:
        if nm in mi.classes:
            return mi, mi.classes[nm]
        org = mi.imports.get(nm)
        if org:
            target, cname = repo._resolve_import(mi.rel, org)
            if target and cname in repo.modules[target].classes:
                return repo.modules[target], repo.modules[target].classes[cname]
    return None


def _digest_equality(cls: ast.ClassDef) -> Optional[bool]:
    """True: __eq__/__hash__ go through a canonical digest; False: identity semantics (neither defined, not a value dataclass); None: unknown"""
    eqs = [m for m in cls.body if isinstance(m, ast.FunctionDef) and m.name in ("__eq__", "__hash__")]
    if not eqs:
        deco = [norm(d) for d in cls.decorator_list]
        if any(d.startswith("dataclass") for d in deco) and not any("eq=False" in d.replace(" ", "") for d in deco):
            return None
        return False
    for m in eqs:
        txt = " ".join(n.attr for n in ast.walk(m) if isinstance(n, ast.Attribute)).lower()
        if any(w in txt for w in DIGEST_WORDS):
            return True
    return None


def key_identifies_objects(repo: Repo, fi: FuncInfo, key: Optional[ast.AST], defs) -> Tuple[Optional[bool], str]:
    """(verdict, reason) for a lookup key guarding values that carry node ids of the concrete graphs of this call.
    False: some component is a canonical digest / digest-equal object; True: only identity-like components; None: cannot tell"""
    if key is None:
        return None, "no key"
    comps = all_roots(defs, key)
    unknown = []
    for c in comps:
        if isinstance(c, ast.Constant):
            continue
        t = norm(c)
        if isinstance(c, ast.Attribute) and any(w in c.attr.lower() for w in DIGEST_WORDS):
            return False, f"key component `{t}` is a canonical digest: it is equal for differently numbered copies of the same structure"
        if isinstance(c, ast.Call) and any(w in (call_name(c) or "").lower() for w in DIGEST_WORDS):
            return False, f"key component `{t}` is a canonical digest: it is equal for differently numbered copies of the same structure"
        if isinstance(c, ast.Attribute) and isinstance(c.value, ast.Name) and c.value.id == "self" and fi.cls is not None:
            # a property / field of the owner: look at its declared class
            prop = fi.module.funcs.get(f"{fi.cls.name}.{c.attr}")
            ann = prop.node.returns if prop is not None else None
            if ann is None:
                for st in fi.cls.body:
                    if isinstance(st, ast.AnnAssign) and isinstance(st.target, ast.Name) and st.target.id == c.attr:
                        ann = st.annotation
            found = _class_of_annotation(repo, fi.module, ann)
            if found is not None:
                dg = _digest_equality(found[1])
                if dg:
                    return False, (f"key component `{t}` is a {found[1].name}, which compares and hashes by its canonical signature: "
                                   f"it is equal for differently numbered copies of the same structure")
                if dg is False:
                    continue
                unknown.append(t)
            # plain configuration values (bool / int / str options) do not matter either way
            continue
        if isinstance(c, ast.Call) and call_name(c) == "id":
            continue
        if isinstance(c, ast.Name):
            continue
        unknown.append(t)
    if unknown:
        return None, f"key components {unknown} not understood"
    return True, "key components are objects / identities / options"
