"""Two parameter rules that hold for every function:

mutated_mutable_defaults(fi): a parameter whose default is a list / dict / set literal is modified in place (`del p[i]`, `p.append`, `p[i] = ..`,
    `p += ..`): the default object is shared by all calls, so one call changes what every later call gets.

accepted_not_threaded(fi): a parameter that the body never reads, while the body calls a function / constructor of the package that has a
    parameter of the same name and does not receive it: the option is accepted and silently dropped."""
from __future__ import annotations

import ast
from typing import List, Tuple

from ..core import FuncInfo, norm, walk_local

MUT = {"append", "extend", "insert", "pop", "remove", "clear", "sort", "reverse", "update", "add", "discard", "setdefault", "popitem"}


def mutated_mutable_defaults(fi: FuncInfo) -> List[Tuple[ast.AST, str]]:
    a = fi.node.args
    pos = a.posonlyargs + a.args
    defaults = dict(zip([x.arg for x in pos[len(pos) - len(a.defaults):]], a.defaults))
    defaults.update({x.arg: d for x, d in zip(a.kwonlyargs, a.kw_defaults) if d is not None})
    mutable = {p for p, d in defaults.items() if isinstance(d, (ast.List, ast.Dict, ast.Set)) or
               (isinstance(d, ast.Call) and isinstance(d.func, ast.Name) and d.func.id in ("list", "dict", "set") and not d.args)}
    if not mutable:
        return []
    rebound = {n.id for n in walk_local(fi.node) if isinstance(n, ast.Name) and isinstance(n.ctx, ast.Store) and n.id in mutable}
    out = []
    for n in walk_local(fi.node):
        tgt = None
        if isinstance(n, ast.Delete):
            for t in n.targets:
                if isinstance(t, ast.Subscript) and isinstance(t.value, ast.Name) and t.value.id in mutable:
                    tgt = t.value.id
        elif isinstance(n, ast.Assign):
            for t in n.targets:
                if isinstance(t, ast.Subscript) and isinstance(t.value, ast.Name) and t.value.id in mutable:
                    tgt = t.value.id
        elif isinstance(n, ast.AugAssign) and isinstance(n.target, ast.Name) and n.target.id in mutable:
            tgt = n.target.id
        elif isinstance(n, ast.Call) and isinstance(n.func, ast.Attribute) and n.func.attr in MUT and isinstance(n.func.value, ast.Name) and n.func.value.id in mutable:
            tgt = n.func.value.id
        if tgt and (tgt not in rebound or isinstance(n, ast.AugAssign)):
            out.append((n, f"parameter `{tgt}` defaults to a mutable literal that is shared by all calls, and is modified in place here: a call with the "
                           f"default changes what every later call with the default gets"))
    return out


def accepted_not_threaded(fi: FuncInfo) -> List[Tuple[ast.AST, str]]:
    params = [p for p in fi.params if p not in ("self", "cls")]
    read = {n.id for n in walk_local(fi.node, into_nested=True) if isinstance(n, ast.Name) and isinstance(n.ctx, ast.Load)}
    folded = {opt for q, opt, _d in (getattr(fi.module, "specialised", None) or []) if q == fi.qual}   # analysed at their default: not "unread"
    unused = [p for p in params if p not in read and not p.startswith("_") and p not in folded]
    if not unused:
        return []
    a = fi.node.args
    if a.kwarg is not None:
        pass
    out = []
    for c in walk_local(fi.node, into_nested=True):
        if not isinstance(c, ast.Call):
            continue
        cp = getattr(c, "_params", None)   # set by normal form N22 for callees resolved in the package
        if not cp or any(k.arg is None for k in c.keywords) or any(isinstance(x, ast.Starred) for x in c.args):
            continue
        passed = set(cp[:len(c.args)]) | {k.arg for k in c.keywords}
        for p in unused:
            if p in cp and p not in passed:
                out.append((c, f"parameter `{p}` of {fi.qual} is never read, and `{norm(c.func)}` - which has a parameter `{p}` - is called without it: the option is "
                               f"accepted and silently dropped"))
    return out
