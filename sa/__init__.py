"""Repository-specific static analysis for SynKit's semantic properties.

Nothing in this package imports ``synkit`` or executes repository code: every
decision is taken from syntax trees, flow graphs and def-use facts built from
the source text under the analysed root (default ``/repo``).
"""
