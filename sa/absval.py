"""Tiny abstract evaluators used by several rules.

* ``linform``   - scalar expressions as linear forms over named atoms
                  (expression normalisation, not solving)
* ``eval_pred`` - a predicate over one or two variables evaluated on sample
                  points (the ``cmp`` domain: thresholds become visible as sign
                  changes between neighbouring sample points)

Neither evaluates repository code: both interpret a small whitelisted subset
of expression syntax and raise ``Undecided`` on anything else.
"""
from __future__ import annotations

import ast
import operator
from fractions import Fraction
from typing import Callable, Dict, Optional

from .core import norm


class Undecided(Exception):
    pass


# --------------------------------------------------------------------------
# linear forms
# --------------------------------------------------------------------------
class Lin(dict):
    """atom -> coefficient; the constant term is stored under key 1."""

    def __add__(self, o):
        r = Lin(self)
        for k, v in o.items():
            r[k] = r.get(k, 0) + v
        return r.clean()

    def scale(self, c):
        return Lin({k: v * c for k, v in self.items()}).clean()

    def __sub__(self, o):
        return self + o.scale(-1)

    def clean(self):
        for k in [k for k, v in self.items() if v == 0]:
            del self[k]
        return self

    def is_const(self):
        return all(k == 1 for k in self)

    def pretty(self) -> str:
        if not self:
            return "0"
        parts = []
        for k in sorted(self, key=str):
            v = self[k]
            sv = ("+" if v >= 0 else "") + str(v)
            parts.append(sv if k == 1 else f"{sv}*{k}")
        return " ".join(parts)


IDENTITY_CALLS = {"int", "float", "round", "Fraction"}


def linform(expr: ast.AST, atom_of: Callable[[ast.AST], Optional[str]],
            wrappers: Optional[list] = None) -> Lin:
    """Linear form of ``expr``.  ``atom_of`` names leaves; numeric wrappers
    (int/float/round) are treated as identity and recorded in ``wrappers``."""
    a = atom_of(expr)
    if a is not None:
        return Lin({a: Fraction(1)})
    if isinstance(expr, ast.Constant) and isinstance(expr.value, (int, float)) \
            and not isinstance(expr.value, bool):
        return Lin({1: Fraction(expr.value)}).clean()
    if isinstance(expr, ast.UnaryOp) and isinstance(expr.op, ast.USub):
        return linform(expr.operand, atom_of, wrappers).scale(-1)
    if isinstance(expr, ast.UnaryOp) and isinstance(expr.op, ast.UAdd):
        return linform(expr.operand, atom_of, wrappers)
    if isinstance(expr, ast.BinOp):
        if isinstance(expr.op, ast.Add):
            return linform(expr.left, atom_of, wrappers) + linform(expr.right, atom_of, wrappers)
        if isinstance(expr.op, ast.Sub):
            return linform(expr.left, atom_of, wrappers) - linform(expr.right, atom_of, wrappers)
        if isinstance(expr.op, ast.Mult):
            l = linform(expr.left, atom_of, wrappers)
            r = linform(expr.right, atom_of, wrappers)
            if l.is_const():
                return r.scale(l.get(1, 0))
            if r.is_const():
                return l.scale(r.get(1, 0))
    if isinstance(expr, ast.Call) and isinstance(expr.func, ast.Name) \
            and expr.func.id in IDENTITY_CALLS and len(expr.args) >= 1:
        if wrappers is not None:
            wrappers.append(expr.func.id)
        return linform(expr.args[0], atom_of, wrappers)
    raise Undecided(f"not a linear form: {norm(expr)}")


# --------------------------------------------------------------------------
# predicates on sample points
# --------------------------------------------------------------------------
_CMP = {
    ast.Eq: operator.eq, ast.NotEq: operator.ne, ast.Lt: operator.lt,
    ast.LtE: operator.le, ast.Gt: operator.gt, ast.GtE: operator.ge,
    ast.Is: operator.is_, ast.IsNot: operator.is_not,
    ast.In: lambda a, b: a in b, ast.NotIn: lambda a, b: a not in b,
}
_TYPES = {"int": int, "float": float, "str": str, "bool": bool, "tuple": tuple, "list": list}


def eval_expr(expr: ast.AST, env: Dict[str, object]):
    """Value of a whitelisted expression with variables bound by ``env``
    (keys are normalised source texts, so ``a.b`` or ``x[0]`` can be bound)."""
    try:
        return _eval_expr(expr, env)
    except (TypeError, ValueError, ZeroDivisionError, OverflowError) as exc:
        if env.get("__raw__"):
            raise  # inside a modelled `try:` the exception is part of the function's behaviour
        raise Undecided(f"{norm(expr)} is not defined on the sample point ({exc})")


_NOVALUE = object()  # returned by an env["__resolve__"] hook that does not know the expression


class _Lazy:
    """a local whose defining expression could not be evaluated on the sample point; only an actual use makes the evaluation undecided"""
    def __init__(self, why):
        self.why = why


def _eval_expr(expr: ast.AST, env: Dict[str, object]):
    key = norm(expr)
    if key in env:
        if isinstance(env[key], _Lazy):
            raise Undecided(env[key].why)
        return env[key]
    hook = env.get("__resolve__")
    if hook is not None:
        v = hook(expr, env)
        if v is not _NOVALUE:
            return v
    if isinstance(expr, ast.Constant):
        return expr.value
    if isinstance(expr, (ast.GeneratorExp, ast.ListComp, ast.SetComp)) and len(expr.generators) == 1 and not expr.generators[0].is_async:
        g = expr.generators[0]
        out = []
        for item in eval_expr(g.iter, env):
            e2 = dict(env)
            if isinstance(g.target, ast.Name):
                e2[g.target.id] = item
            elif isinstance(g.target, ast.Tuple) and all(isinstance(x, ast.Name) for x in g.target.elts):
                for x, v_ in zip(g.target.elts, item):
                    e2[x.id] = v_
            else:
                raise Undecided(norm(expr))
            if all(eval_expr(c, e2) for c in g.ifs):
                out.append(eval_expr(expr.elt, e2))
        return frozenset(out) if isinstance(expr, ast.SetComp) else tuple(out)
    if isinstance(expr, (ast.Tuple, ast.List)):
        return tuple(eval_expr(e, env) for e in expr.elts)
    if isinstance(expr, ast.Set):
        return frozenset(eval_expr(e, env) for e in expr.elts)
    if isinstance(expr, ast.Subscript) and not isinstance(expr.slice, ast.Slice):
        v = eval_expr(expr.value, env)
        k = eval_expr(expr.slice, env)
        if isinstance(v, (tuple, list, dict, str)):
            try:
                return v[k]
            except (IndexError, KeyError) as exc:
                if env.get("__raw__") and isinstance(exc, KeyError):
                    raise
                raise Undecided(f"{norm(expr)} is not defined on the sample point")
        raise Undecided(f"cannot evaluate {norm(expr)}")
    if isinstance(expr, ast.Dict) and all(k is not None for k in expr.keys):
        return {eval_expr(k, env): eval_expr(v, env) for k, v in zip(expr.keys, expr.values)}
    if isinstance(expr, ast.UnaryOp):
        v = eval_expr(expr.operand, env)
        if isinstance(expr.op, ast.Not):
            return not v
        if isinstance(expr.op, ast.USub):
            return -v
        if isinstance(expr.op, ast.UAdd):
            return +v
    if isinstance(expr, ast.BoolOp):
        # short-circuit, as Python does
        if isinstance(expr.op, ast.And):
            r = True
            for v in expr.values:
                r = eval_expr(v, env)
                if not r:
                    return r
            return r
        r = False
        for v in expr.values:
            r = eval_expr(v, env)
            if r:
                return r
        return r
    if isinstance(expr, ast.Compare):
        left = eval_expr(expr.left, env)
        for op, c in zip(expr.ops, expr.comparators):
            right = eval_expr(c, env)
            f = _CMP.get(type(op))
            if f is None:
                raise Undecided(norm(expr))
            if not f(left, right):
                return False
            left = right
        return True
    if isinstance(expr, ast.BinOp):
        l, r = eval_expr(expr.left, env), eval_expr(expr.right, env)
        ops = {ast.Add: operator.add, ast.Sub: operator.sub, ast.Mult: operator.mul}
        f = ops.get(type(expr.op))
        if f is None:
            raise Undecided(norm(expr))
        return f(l, r)
    if isinstance(expr, ast.IfExp):
        return eval_expr(expr.body, env) if eval_expr(expr.test, env) else eval_expr(expr.orelse, env)
    if isinstance(expr, ast.JoinedStr):
        out = []
        for v in expr.values:
            if isinstance(v, ast.Constant):
                out.append(str(v.value))
            elif isinstance(v, ast.FormattedValue) and v.format_spec is None and v.conversion == -1:
                out.append(str(eval_expr(v.value, env)))
            else:
                raise Undecided(f"format spec in {norm(expr)}")
        return "".join(out)
    if isinstance(expr, ast.Call) and isinstance(expr.func, ast.Attribute) and expr.func.attr == "get" and not expr.keywords and len(expr.args) in (1, 2):
        recv = eval_expr(expr.func.value, env)
        if isinstance(recv, dict):
            k = eval_expr(expr.args[0], env)
            return recv.get(k, eval_expr(expr.args[1], env) if len(expr.args) == 2 else None)
        raise Undecided(f"cannot evaluate {norm(expr)}")
    if isinstance(expr, ast.Call) and isinstance(expr.func, ast.Attribute) and expr.func.attr in ("items", "keys", "values") and not expr.args and not expr.keywords:
        recv = eval_expr(expr.func.value, env)
        if isinstance(recv, dict):
            return tuple(getattr(recv, expr.func.attr)())
        raise Undecided(f"cannot evaluate {norm(expr)}")
    if isinstance(expr, ast.Call) and isinstance(expr.func, ast.Name) and expr.func.id == "zip" and expr.args and not expr.keywords:
        return tuple(zip(*[eval_expr(a, env) for a in expr.args]))
    if isinstance(expr, ast.Call) and isinstance(expr.func, ast.Name) and expr.func.id == "enumerate" and len(expr.args) == 1 and not expr.keywords:
        return tuple(enumerate(eval_expr(expr.args[0], env)))
    if isinstance(expr, ast.Call) and isinstance(expr.func, ast.Name) and expr.func.id == "range" and 1 <= len(expr.args) <= 3 and not expr.keywords:
        vals = [eval_expr(a, env) for a in expr.args]
        if all(isinstance(v, int) and not isinstance(v, bool) for v in vals) and len(range(*vals)) <= 64:
            return tuple(range(*vals))
        raise Undecided(f"cannot evaluate {norm(expr)}")
    if isinstance(expr, ast.Call) and norm(expr.func) == "dict.fromkeys" and len(expr.args) == 1 and not expr.keywords:
        return dict.fromkeys(eval_expr(expr.args[0], env))
    if isinstance(expr, ast.Call) and isinstance(expr.func, ast.Name) and expr.func.id in ("set", "list", "dict") and not expr.args and not expr.keywords:
        return {"set": set, "list": list, "dict": dict}[expr.func.id]()   # a fresh mutable container the function may fill
    if isinstance(expr, ast.Call) and isinstance(expr.func, ast.Name):
        fn = expr.func.id
        if fn == "abs" and len(expr.args) == 1:
            return abs(eval_expr(expr.args[0], env))
        if fn in ("int", "float", "bool", "round", "str") and len(expr.args) == 1:
            return {"int": int, "float": float, "bool": bool, "round": round, "str": str}[fn](
                eval_expr(expr.args[0], env))
        if fn in ("list", "tuple", "set", "frozenset", "sorted", "len", "min", "max", "sum", "all", "any") and len(expr.args) == 1 and not expr.keywords:
            v = eval_expr(expr.args[0], env)
            return {"list": tuple, "tuple": tuple, "set": frozenset, "frozenset": frozenset, "sorted": lambda x: tuple(sorted(x)),
                    "len": len, "min": min, "max": max, "sum": sum, "all": all, "any": any}[fn](v)
        if fn == "isinstance" and len(expr.args) == 2:
            v = eval_expr(expr.args[0], env)
            t = expr.args[1]
            names = [e.id for e in (t.elts if isinstance(t, ast.Tuple) else [t])
                     if isinstance(e, ast.Name)]
            if not names or any(n not in _TYPES for n in names):
                raise Undecided(norm(expr))
            return isinstance(v, tuple(_TYPES[n] for n in names))
    raise Undecided(f"cannot evaluate {norm(expr)}")


def truth_table(expr: ast.AST, var: str, points, extra: Optional[dict] = None):
    out = {}
    for p in points:
        env = dict(extra or {})
        env[var] = p
        out[p] = bool(eval_expr(expr, env))
    return out


# --------------------------------------------------------------------------
# straight-line decision functions
# --------------------------------------------------------------------------
class _Return(Exception):
    def __init__(self, value):
        self.value = value


class _Loop(Exception):
    def __init__(self, kind):
        self.kind = kind


_EXC = {"TypeError": (TypeError,), "ValueError": (ValueError,), "KeyError": (KeyError,), "ZeroDivisionError": (ZeroDivisionError,),
        "OverflowError": (OverflowError,), "ArithmeticError": (ZeroDivisionError, OverflowError),
        "Exception": (TypeError, ValueError, KeyError, ZeroDivisionError, OverflowError)}


def eval_function(fn: ast.AST, env: Dict[str, object]):
    """Interpret a small pure decision function (if / return / simple assignment / pass / docstring / `for` over a sample
    tuple / try-except around conversions) on sample values of a finite domain.  Anything else -> Undecided."""
    env = dict(env)

    def bind(target, value):
        if isinstance(target, ast.Name):
            env[target.id] = value
        elif isinstance(target, (ast.Tuple, ast.List)) and all(isinstance(x, ast.Name) for x in target.elts):
            vals = tuple(value)
            if len(vals) != len(target.elts):
                raise Undecided(f"unpacking {norm(target)}")
            for x, v in zip(target.elts, vals):
                env[x.id] = v
        else:
            raise Undecided(f"target not modelled: {norm(target)}")

    def handler_types(h):
        if h.type is None:
            return _EXC["Exception"]
        names = [e for e in (h.type.elts if isinstance(h.type, ast.Tuple) else [h.type])]
        out = ()
        for e in names:
            if not (isinstance(e, ast.Name) and e.id in _EXC):
                raise Undecided(f"exception type not modelled: {norm(h.type)}")
            out += _EXC[e.id]
        return out

    def block(body):
        for st in body:
            if isinstance(st, ast.Expr) and isinstance(st.value, ast.Constant):
                continue
            if isinstance(st, ast.Pass):
                continue
            if isinstance(st, ast.Return):
                raise _Return(None if st.value is None else eval_expr(st.value, env))
            if isinstance(st, ast.If):
                block(st.body if eval_expr(st.test, env) else st.orelse)
                continue
            if isinstance(st, ast.Assign) and len(st.targets) == 1 and isinstance(st.targets[0], (ast.Name, ast.Tuple)):
                try:
                    v = eval_expr(st.value, env)
                except Undecided as exc:
                    if isinstance(st.targets[0], ast.Name) and not env.get("__raw__"):
                        env[st.targets[0].id] = _Lazy(str(exc))   # decided only if the local is really needed
                        continue
                    raise
                bind(st.targets[0], list(v) if isinstance(st.value, (ast.List, ast.ListComp)) else v)  # a list the function may append to
                continue
            if isinstance(st, ast.AnnAssign) and isinstance(st.target, ast.Name) and st.value is not None:
                v = eval_expr(st.value, env)
                env[st.target.id] = list(v) if isinstance(st.value, (ast.List, ast.ListComp)) else v
                continue
            if isinstance(st, ast.Expr) and isinstance(st.value, ast.Call) and isinstance(st.value.func, ast.Attribute) and st.value.func.attr in ("add", "discard") \
                    and isinstance(st.value.func.value, ast.Name) and isinstance(env.get(st.value.func.value.id), set) and len(st.value.args) == 1 and not st.value.keywords:
                getattr(env[st.value.func.value.id], st.value.func.attr)(eval_expr(st.value.args[0], env))
                continue
            if isinstance(st, ast.Expr) and isinstance(st.value, ast.Call) and isinstance(st.value.func, ast.Attribute) and st.value.func.attr in ("append", "extend") \
                    and isinstance(st.value.func.value, ast.Name) and isinstance(env.get(st.value.func.value.id), list) and len(st.value.args) == 1 and not st.value.keywords:
                v = eval_expr(st.value.args[0], env)
                if st.value.func.attr == "append":
                    env[st.value.func.value.id].append(v)
                else:
                    env[st.value.func.value.id].extend(v)
                continue
            if isinstance(st, ast.Continue):
                raise _Loop("continue")
            if isinstance(st, ast.Break):
                raise _Loop("break")
            if isinstance(st, ast.For) and not st.orelse:
                items = eval_expr(st.iter, env)
                if not isinstance(items, (tuple, list, frozenset, dict, range)):
                    raise Undecided(f"iteration over {norm(st.iter)}")
                for item in items:
                    bind(st.target, item)
                    try:
                        block(st.body)
                    except _Loop as lc:
                        if lc.kind == "break":
                            break
                continue
            if isinstance(st, ast.Try) and not st.finalbody:
                hs = [(handler_types(h), h) for h in st.handlers]
                raw = env.get("__raw__")
                env["__raw__"] = True
                try:
                    try:
                        block(st.body)
                    finally:
                        env["__raw__"] = raw
                except (TypeError, ValueError, KeyError, ZeroDivisionError, OverflowError) as exc:
                    for types, h in hs:
                        if isinstance(exc, types):
                            if h.name:
                                raise Undecided("exception object used")
                            block(h.body)
                            break
                    else:
                        if raw:
                            raise
                        raise Undecided(f"uncaught {type(exc).__name__} on the sample point")
                else:
                    block(st.orelse)
                continue
            raise Undecided(f"statement not modelled: {norm(st)[:80]}")

    try:
        block(fn.body)
    except _Return as r:
        return r.value
    except _Loop:
        raise Undecided("loop control outside a loop")
    return None


def eval_resolved(expr: ast.AST, env: Dict[str, object], defs, depth: int = 4):
    """eval_expr, but local names that are not bound in ``env`` are first resolved
    through their single defining assignment (``n = len(x)``; ``a, b = (f(), g())``)."""
    from .core import origin
    env = dict(env)
    if depth > 0:
        for n in ast.walk(expr):
            if isinstance(n, ast.Name) and n.id not in env and norm(n) not in env:
                o = origin(defs, n, depth=1)
                if o is not n and not (isinstance(o, ast.Name) and o.id == n.id):
                    try:
                        env[n.id] = eval_resolved(o, env, defs, depth - 1)
                    except Undecided:
                        pass
    return eval_expr(expr, env)


def module_resolver(tree: ast.Module):
    """resolver hook: a Name that is not bound in the environment but is assigned exactly once at module level to a whitelisted expression
    (a table of constants, possibly naming attributes the environment binds) evaluates to that expression's value"""
    assigns: Dict[str, list] = {}
    for st in tree.body:
        tg = st.targets[0] if isinstance(st, ast.Assign) and len(st.targets) == 1 else (st.target if isinstance(st, ast.AnnAssign) and st.value is not None else None)
        if isinstance(tg, ast.Name):
            assigns.setdefault(tg.id, []).append(st.value)

    def hook(expr, env):
        if isinstance(expr, ast.Name) and expr.id not in env and len(assigns.get(expr.id, [])) == 1:
            return eval_expr(assigns[expr.id][0], env)
        return _NOVALUE
    return hook


def module_constants(tree: ast.Module) -> Dict[str, object]:
    """NAME = <literal> at module level (numbers, strings, tuples of them)"""
    out: Dict[str, object] = {}
    for st in tree.body:
        if isinstance(st, ast.Assign) and len(st.targets) == 1 and isinstance(st.targets[0], ast.Name):
            try:
                out[st.targets[0].id] = eval_expr(st.value, {})
            except Undecided:
                pass
        elif isinstance(st, ast.AnnAssign) and isinstance(st.target, ast.Name) and st.value is not None:
            try:
                out[st.target.id] = eval_expr(st.value, {})
            except Undecided:
                pass
    return out
