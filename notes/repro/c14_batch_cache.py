import warnings; warnings.filterwarnings("ignore")
import logging; logging.disable(logging.CRITICAL)
from synkit.Synthesis.Reactor.batch_reactor import BatchReactor
rule="[CH3:1][OH:2].[H:3][Cl:4]>>[CH3:1][Cl:4].[H:3][OH:2]"
import random
subs=[("C"*random.Random(i).randint(1,6))+"O.Cl" for i in range(300)]
br=BatchReactor(subs, react_engine="syn", strategy="bt", cache_enabled=True, enable_logging=False)
out=br.fit([rule])
br2=BatchReactor(subs, react_engine="syn", strategy="bt", cache_enabled=False, enable_logging=False)
out2=br2.fit([rule])
bad=[(i,s) for i,(s,a,b) in enumerate(zip(subs,out,out2)) if a!=b]
print("mismatches:", len(bad), bad[:5])
if bad:
    i,s=bad[0]; print(s, out[i], out2[i])
