import warnings; warnings.filterwarnings("ignore")
import random, gc, sys
from synkit.CRN.Hypergraph.hypergraph import CRNHyperGraph
from synkit.CRN.Topo.canon import CRNCanonicalizer
def clean_refine(self, G, part):
    changed=True
    while changed:
        changed=False; new=[]
        for cell in part:
            if len(cell)<=1: new.append(cell); continue
            sigs={}
            for v in cell: sigs.setdefault(self._sig(G,v,part),[]).append(v)
            if len(sigs)>1:
                changed=True
                for s in sorted(sigs): new.append(sorted(sigs[s]))
            else: new.append(sorted(cell))
        part=new
    return part
def prep(full, empty):
    # fill freelist[full], drain freelist[empty]
    keep=[tuple(range(empty)) for _ in range(5000)]   # drain
    tmp=[tuple(range(full)) for _ in range(5000)]; del tmp  # fill with 2000, rest to obmalloc
    return keep
bad=0; tot=0
for seed in range(300):
    r=random.Random(seed); sp=[f"S{i}" for i in range(r.randint(5,9))]
    H=CRNHyperGraph()
    for _ in range(r.randint(3,7)):
        a=r.sample(sp,r.randint(1,2)); b=r.sample(sp,r.randint(1,2))
        H.add_rxn({x:r.randint(1,2) for x in a},{x:r.randint(1,2) for x in b})
    c=CRNCanonicalizer(H, include_rule=True); G=c.G; part=c._init_part(G)
    ref=clean_refine(c,G,[list(x) for x in part])
    for full in range(1,12):
        keep=prep(full, full+1)
        got=c._refine(G,[list(x) for x in part]); tot+=1
        if got!=ref:
            bad+=1
            if bad<=3: print("STALE seed",seed,"full",full,"\n got",got,"\n ref",ref)
        del keep
print("runs",tot,"mismatches",bad)
