import warnings; warnings.filterwarnings("ignore")
from synkit.CRN.Hypergraph.hypergraph import CRNHyperGraph
from synkit.CRN.Topo.automorphism import CRNAutomorphism
from synkit.CRN.Topo.canon import CRNCanonicalizer
H=CRNHyperGraph(); H.parse_rxns(["A + 2B >> C"])
for ir in (True, False):
    a=CRNAutomorphism(H, include_rule=ir).summary()
    c=CRNCanonicalizer(H, include_rule=ir).summary()
    print("include_rule",ir,"VF2 count",a["automorphism_count"],a["orbits"],"| canon",c.get("automorphism_count"),c.get("orbits"))
print(CRNAutomorphism(H, include_rule=True).G.edges(data=True))
print(CRNAutomorphism(H, include_rule=False).G.edges(data=True))
