import warnings; warnings.filterwarnings("ignore")
import logging; logging.disable(logging.CRITICAL)
from synkit.CRN.Hypergraph.hypergraph import CRNHyperGraph
H=CRNHyperGraph()
H.add_rxn({"A":1},{"B":1},rule="r",edge_id="r_1")
H.add_rxn({"C":1},{"D":1},rule="r")
print("C15 edges:", H.edges, "in-index B:", H.species_to_in_edges["B"], "species", H.species)
# C17
from synkit.CRN.Props.stoich import is_conservative, compute_conservativity, is_consistent
H2=CRNHyperGraph(); H2.parse_rxns(["C + B >> F + A"])
print("C17 is_conservative(C+B>>F+A):", is_conservative(H2))
# C19
from synkit.CRN.Props.deficiency import DeficiencyAnalyzer
H3=CRNHyperGraph(); H3.parse_rxns(["A + B >> C","C >> A + B"])
d=DeficiencyAnalyzer(H3).compute_crn_deficiency()
print("C19:", d.summary)
# C20
from synkit.CRN.Petri.structure import find_siphons, find_traps
H4=CRNHyperGraph(); H4.parse_rxns(["A >> B","B >> A","B >> C"])
print("C20 siphons:", find_siphons(H4), "traps:", find_traps(H4))
