import networkx as nx, warnings
warnings.filterwarnings("ignore")
# C07: get_mappings with smaller pattern
from synkit.Graph.Matcher.graph_matcher import GraphMatcherEngine
def mk(edges, n, el="C"):
    g=nx.Graph()
    for i in range(n): g.add_node(i, element=el, charge=0)
    for u,v in edges: g.add_edge(u,v,order=1)
    return g
host=mk([(0,1),(1,2)],3); pat=mk([(0,1)],2)
e=GraphMatcherEngine(node_attrs=["element"],edge_attrs=["order"],max_mappings=None)
print("C07 get_mappings proper subgraph:", e.get_mappings(host,pat))
# induced: pattern C-C in path C-C-C: yes contained (nodes 0,1)
tri=mk([(0,1),(1,2),(0,2)],3)
e2=GraphMatcherEngine(node_attrs=["element"],edge_attrs=["order"],wl1_filter=True)
e3=GraphMatcherEngine(node_attrs=["element"],edge_attrs=["order"],wl1_filter=False)
p3=mk([(0,1),(1,2)],3)
star=mk([(0,1),(0,2),(0,3)],4)
print("iso path3 in star4 (induced subgraph) filter on/off:", e2.isomorphic(p3,star), e3.isomorphic(p3,star))
# cache staleness
g1=nx.Graph(); g1.add_node(0,element="C",charge=0); g1.add_node(1,element="C",charge=1); g1.add_edge(0,1,order=1)
g2=nx.Graph(); g2.add_node(0,element="C",charge=0); g2.add_node(1,element="C",charge=0); g2.add_edge(0,1,order=1)
ea=GraphMatcherEngine(node_attrs=["element","charge"],edge_attrs=["order"],wl1_filter=True)
eb=GraphMatcherEngine(node_attrs=["element"],edge_attrs=["order"],wl1_filter=True)
print("fresh eb:", GraphMatcherEngine(node_attrs=["element"],edge_attrs=["order"],wl1_filter=True).isomorphic(g1.copy(),g2.copy()))
print("ea:", ea.isomorphic(g1,g2)); print("eb after ea:", eb.isomorphic(g1,g2))
# use_filter node ids
from synkit.Graph.Matcher.subgraph_matcher import SubgraphMatch
c=mk([(0,1)],2); p=nx.relabel_nodes(mk([(0,1),(1,2)],3),{0:10,1:11,2:12})
print("use_filter off/on:", SubgraphMatch.subgraph_isomorphism(c,p,use_filter=False), SubgraphMatch.subgraph_isomorphism(c,p,use_filter=True))
