import warnings; warnings.filterwarnings("ignore")
import sys, random, networkx as nx, json
from synkit.Graph.canon_graph import GraphCanonicaliser
import synkit; 
def rnd_graph(seed):
    r=random.Random(seed); n=r.randint(3,8); g=nx.Graph()
    ids=list(range(1,n+1)); r.shuffle(ids)
    for i in ids: g.add_node(i, element=r.choice("CNO"), charge=0, aromatic=False, hcount=r.randint(0,2))
    for i in range(2,n+1):
        g.add_edge(i, r.randint(1,i-1), order=float(r.choice([1,2])))
    for _ in range(2):
        a,b=r.sample(range(1,n+1),2); g.add_edge(b,a,order=1.0)
    return g
out={}
for be in ("generic","wl","morgan"):
    c=GraphCanonicaliser(backend=be)
    out[be]=[c.canonical_signature(rnd_graph(s)) for s in range(300)]
print(synkit.__file__, json.dumps({k:hash(tuple(v)) for k,v in out.items()}))
json.dump(out, open(sys.argv[1],"w"))
