import warnings; warnings.filterwarnings("ignore")
from synkit.IO.chem_converter import rsmi_to_its, its_to_gml, smart_to_gml, gml_to_its
from synkit.Graph.ITS.its_decompose import get_rc
rs="[CH3:1][CH2:2][OH:3].[H:4][Cl:5]>>[CH3:1][CH2:2][Cl:5].[H:4][OH:3]"
its=rsmi_to_its(rs)
a=its_to_gml(its, core=True, reindex=False)
b=its_to_gml(get_rc(its), core=True, reindex=False)
c=smart_to_gml(rs, core=True)
print(a); print(b); print(c)
