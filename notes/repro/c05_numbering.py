import warnings; warnings.filterwarnings("ignore")
import logging; logging.disable(logging.CRITICAL)
from synkit.Synthesis.Reactor.syn_reactor import SynReactor
from synkit.Chem.Reaction.standardize import Standardize
from synkit.IO.chem_converter import rsmi_to_its
import itertools, re, random
fw="[cH:5]1[cH:11][cH:12][cH:13][cH:6][c:1]1[Br:3].[cH:7]1[cH:14][cH:15][cH:16][cH:8][c:2]1[B:4]([OH:9])[OH:10]>>[cH:5]1[cH:11][cH:12][cH:13][cH:6][c:1]1[c:2]1[cH:7][cH:14][cH:15][cH:16][cH:8]1.[Br:3][B:4]([OH:9])[OH:10]"
sub="c1ccccc1-c1ccc(C)cc1.BrB(O)O"
def renum(s, perm):
    return re.sub(r":(\d+)\]", lambda m: ":%d]"%perm[int(m.group(1))], s)
res={}
ids=list(range(1,17))
for seed in range(12):
    r_=random.Random(seed); p=ids[:]; 
    if seed: r_.shuffle(p)
    perm=dict(zip(ids,p))
    t=rsmi_to_its(renum(fw,perm), core=True)
    for strat in ("all","comp","bt"):
        r=SynReactor(sub,t,invert=True,explicit_h=False,implicit_temp=True,strategy=strat)
        out=set()
        for s in r.smarts_list:
            try: out.add(Standardize().fit(s))
            except Exception as e: out.add("ERR"+s)
        res[(seed,strat)]=out
print({k:len(v) for k,v in res.items()})
base=res[(0,"all")]
for k,v in res.items():
    if k[1]=="all" and v!=base: print("DIFF", k, len(v), len(base)); break
