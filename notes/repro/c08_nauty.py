import networkx as nx, warnings, itertools, random
warnings.filterwarnings("ignore")
from synkit.Graph.canon_graph import GraphCanonicaliser
from synkit.Graph.Canon.nauty import NautyCanonicalizer
def cyc(n, perm=None, order=None):
    g=nx.Graph()
    nodes=list(range(1,n+1))
    perm = perm or {i:i for i in nodes}
    ins = order or nodes
    for i in ins: g.add_node(perm[i], element="C", charge=0, aromatic=False, hcount=0)
    for i in nodes: g.add_edge(perm[i], perm[i%n+1], order=1.0)
    return g
c=GraphCanonicaliser(backend="nauty")
g1=cyc(4)
cg=c._make_canonical_graph(g1)
print("C08 nauty canonical nodes of C4:", sorted(cg.nodes()))
# path graph with labels -> asymmetric? try invariance
def rnd_graph(seed):
    r=random.Random(seed); n=r.randint(3,6); g=nx.Graph()
    for i in range(1,n+1): g.add_node(i, element=r.choice("CN"), charge=0, aromatic=False, hcount=r.randint(0,1))
    for i in range(2,n+1): g.add_edge(i, r.randint(1,i-1), order=float(r.choice([1,2])))
    return g
bad=0; badg=0
for s in range(200):
    g=rnd_graph(s); nodes=list(g.nodes()); r=random.Random(s+1000)
    p=nodes[:]; r.shuffle(p); m=dict(zip(nodes,p))
    h=nx.Graph(); order=nodes[:]; r.shuffle(order)
    for n_ in order: h.add_node(m[n_], **g.nodes[n_])
    es=list(g.edges(data=True)); r.shuffle(es)
    for u,v,d in es:
        if r.random()<.5: u,v=v,u
        h.add_edge(m[u],m[v],**d)
    s1=c.canonical_signature(g); s2=c.canonical_signature(h)
    if s1!=s2:
        bad+=1
        if bad==1: print("first failing seed", s, sorted(g.nodes(data=True)), list(g.edges(data=True)))
    a=c._make_canonical_graph(g); b=c._make_canonical_graph(h)
    same = sorted(a.nodes(data=True))==sorted(b.nodes(data=True)) if set(a.nodes())==set(b.nodes()) else False
    e1={frozenset((u,v)):d.get("order") for u,v,d in a.edges(data=True)}; e2={frozenset((u,v)):d.get("order") for u,v,d in b.edges(data=True)}
    if not(same and e1==e2): badg+=1
print("nauty signature mismatches over 200 relabelled pairs:", bad, " canonical graph mismatches:", badg)
