import warnings; warnings.filterwarnings("ignore")
import logging; logging.disable(logging.CRITICAL)
import synkit.Synthesis.Reactor.syn_reactor as sr
from synkit.Chem.Reaction.standardize import Standardize
from synkit.IO.chem_converter import rsmi_to_its
import re, random
fw="[cH:5]1[cH:11][cH:12][cH:13][cH:6][c:1]1[Br:3].[cH:7]1[cH:14][cH:15][cH:16][cH:8][c:2]1[B:4]([OH:9])[OH:10]>>[cH:5]1[cH:11][cH:12][cH:13][cH:6][c:1]1[c:2]1[cH:7][cH:14][cH:15][cH:16][cH:8]1.[Br:3][B:4]([OH:9])[OH:10]"
sub="c1ccccc1-c1ccc(C)cc1.BrB(O)O"
def renum(s, perm): return re.sub(r":(\d+)\]", lambda m: ":%d]"%perm[int(m.group(1))], s)
ids=list(range(1,17))
def run(seed, prune):
    r_=random.Random(seed); p=ids[:]
    if seed: r_.shuffle(p)
    t=rsmi_to_its(renum(fw,dict(zip(ids,p))), core=True)
    orig=sr.deduplicate_matches_with_anchor
    if not prune: sr.deduplicate_matches_with_anchor=lambda m, **k: list(m)
    try:
        r=sr.SynReactor(sub,t,invert=True,explicit_h=False,implicit_temp=True,strategy="all")
        out={Standardize().fit(s) for s in r.smarts_list}
        return len(r.mappings), out
    finally: sr.deduplicate_matches_with_anchor=orig
for seed in (0,1):
    n1,a=run(seed,True); n2,b=run(seed,False)
    print("seed",seed,"pruned maps",n1,"distinct",len(a),"| raw maps",n2,"distinct",len(b), "pruned==raw:", a==b)
for s in sorted(b): print("  ",s)
