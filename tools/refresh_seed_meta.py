#!/usr/bin/env python3
"""Re-run every quick check against one stored seeded change (overlay mode, /repo untouched) and record the outcome in its meta.json.
usage: tools/refresh_seed_meta.py <seed-id>     e.g. C07-4"""
import json, os, sys
HERE = os.path.dirname(os.path.dirname(os.path.abspath(__file__)))
sys.path.insert(0, HERE)
sys.path.insert(0, os.path.join(HERE, "tools"))
from sa.check import ALL
import run_seed as RS

def main():
    sid = sys.argv[1]
    d = os.path.join(HERE, "seeded", sid)
    patch = os.path.join(d, "patch.diff")
    ov = RS.overlay_of(patch)
    if ov is None:
        print(sid, "patch does not apply (tree moved on?)"); return 1
    out = RS.run(ALL, ov)
    meta = json.load(open(os.path.join(d, "meta.json")))
    own = meta["property"]
    meta["checks_now"] = {
        "own_property": {0: "HOLDS (missed)", 1: "VIOLATION (caught)", 2: "ANALYSIS-ERROR (undecided)"}[out[own][0]],
        "own_property_first_finding": out[own][1][:300],
        "fired": [p for p in ALL if out[p][0] == 1],
        "undecided": [p for p in ALL if out[p][0] == 2],
        "how": "tools/run_seed.py seeded/%s/patch.diff  (overlay on /repo's working tree; equivalent to git -C /repo apply, run, git -C /repo checkout -- .)" % sid,
    }
    json.dump(meta, open(os.path.join(d, "meta.json"), "w"), indent=1)
    print(sid, meta["checks_now"]["own_property"], "fired:", meta["checks_now"]["fired"], "undecided:", meta["checks_now"]["undecided"])

if __name__ == "__main__":
    sys.exit(main())
