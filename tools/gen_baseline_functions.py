#!/usr/bin/env python3
"""Freeze the inventory of functions of the analysed package (rel -> sorted qualified names) into sa/baseline_functions.json.
The load-time inliner (sa/inline.py) treats a private function that is NOT in this inventory as a helper that was extracted
later and inlines it at its call sites, so that rules anchored in the original functions still see the code they describe.
Run once on the pinned tree; the file is a table confirmed on that tree, not something computed at check time."""
import json, os, sys
HERE = os.path.dirname(os.path.dirname(os.path.abspath(__file__)))
sys.path.insert(0, HERE)
os.environ["SA_NO_INLINE"] = "1"
from sa.core import Repo
r = Repo("/repo")
inv = {rel: sorted(mi.funcs) for rel, mi in sorted(r.modules.items())}
json.dump(inv, open(os.path.join(HERE, "sa", "baseline_functions.json"), "w"), indent=0, sort_keys=True)
print(sum(len(v) for v in inv.values()), "functions in", len(inv), "modules")
