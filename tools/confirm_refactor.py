#!/usr/bin/env python3
"""Confirm a behaviour-preserving refactoring produced in a scratch worktree and store it under /verif/refactors/<PROP>-r<k>/.

usage: tools/confirm_refactor.py <PROP> <k>     (reads /tmp/seed/<PROP>.ref/refactor<k>.diff, equiv<k>.py, meta<k>.json)
Steps (in /tmp/seed/<PROP>, a detached worktree of /repo's HEAD):
  1. clean tree: equiv prints D0, exit 0
  2. git apply diff; touched files compile; equiv prints D1 == D0, exit 0
  3. full test suite with the diff applied: no failure
  4. git checkout -- .
Then every quick check is run against the refactored tree (overlay; /repo untouched): the expected outcome is exit 0 everywhere."""
import json, os, subprocess, sys, shutil
HERE = os.path.dirname(os.path.dirname(os.path.abspath(__file__)))
PY = "/venv/bin/python"
sys.path.insert(0, HERE)
sys.path.insert(0, os.path.join(HERE, "tools"))


def sh(cmd, cwd, env=None, timeout=1800):
    e = dict(os.environ); e.update(env or {})
    r = subprocess.run(cmd, cwd=cwd, env=e, capture_output=True, text=True, timeout=timeout, shell=isinstance(cmd, str))
    return r.returncode, r.stdout, r.stderr


def main():
    prop, k = sys.argv[1], sys.argv[2]
    wt, out = f"/tmp/seed/{prop}", f"/tmp/seed/{prop}.ref"
    diff, equiv, meta = f"{out}/refactor{k}.diff", f"{out}/equiv{k}.py", f"{out}/meta{k}.json"
    env = {"PYTHONPATH": wt, "PYTHONHASHSEED": "0"}
    rc, o, e = sh(["git", "status", "--porcelain"], wt)
    if o.strip():
        print("worktree not clean:", o); return 3
    log = {}
    rc0, d0, e0 = sh([PY, equiv], wt, env)
    log["equiv_clean_rc"] = rc0
    rca, oa, ea = sh(["git", "apply", diff], wt)
    if rca:
        print("patch does not apply", ea); return 3
    try:
        files = [l[6:].strip() for l in open(diff) if l.startswith("+++ b/")]
        rcc, _, _ = sh([PY, "-m", "py_compile"] + files, wt); log["compiles"] = rcc == 0
        rc1, d1, e1 = sh([PY, equiv], wt, env)
        log["equiv_refactored_rc"] = rc1
        log["same_output"] = (d0 == d1)
        log["output_bytes"] = len(d0)
        rct, ot, et = sh(f"{PY} -m pytest -p no:cacheprovider --timeout=900 -q -n 8 2>&1 | tail -3", wt, env)
        log["suite_tail"] = ot.strip().splitlines()[-1:]
        log["suite_ok"] = ("failed" not in ot and "passed" in ot and " error" not in ot.lower().split("warnings")[0])
    finally:
        sh(["git", "checkout", "--", "."], wt)
    ok = rc0 == 0 and log["compiles"] and log.get("equiv_refactored_rc") == 0 and log["same_output"] and log["suite_ok"] and log["output_bytes"] > 0
    print(json.dumps(log, indent=1))
    if not ok:
        print(f"NOT CONFIRMED {prop} refactor{k}"); return 1
    import run_seed as RS
    from sa.check import ALL
    ov = RS.overlay_of(diff)
    res = RS.run(ALL, ov) if ov is not None else {}
    name = f"{prop}-r{k}"
    dst = os.path.join(HERE, "refactors", name)
    os.makedirs(dst, exist_ok=True)
    shutil.copy(diff, os.path.join(dst, "patch.diff"))
    shutil.copy(equiv, os.path.join(dst, "equiv.py"))
    m = json.load(open(meta)) if os.path.exists(meta) else {}
    m.update({"property": prop, "behaviour_preserving": True,
              "confirmed": {"equiv_output_identical": True, "equiv_output_bytes": log["output_bytes"], "full_suite_with_change": log["suite_tail"],
                            "commands": [f"cd {wt} && PYTHONPATH={wt} {PY} equiv.py > d0", "git apply patch.diff && ... equiv.py > d1 ; cmp d0 d1",
                                         f"PYTHONPATH={wt} {PY} -m pytest -p no:cacheprovider --timeout=900 -q -n 8", "git checkout -- ."]},
              "checks_first_contact": {"false_violation": [p for p in ALL if res.get(p, (0,))[0] == 1], "undecided": [p for p in ALL if res.get(p, (0,))[0] == 2],
                                       "details": {p: res[p][1][:300] for p in ALL if res.get(p, (0,))[0]}}})
    json.dump(m, open(os.path.join(dst, "meta.json"), "w"), indent=1)
    print(f"CONFIRMED {name}: false VIOLATION: {m['checks_first_contact']['false_violation'] or 'none'} | undecided: {m['checks_first_contact']['undecided'] or 'none'}")
    return 0


if __name__ == "__main__":
    sys.exit(main())
