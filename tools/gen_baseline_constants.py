#!/usr/bin/env python3
"""Freeze the names bound at module level and at class level in the analysed package (rel -> sorted names) into sa/baseline_constants.json.
sa/specialise.py treats a module-/class-level name that is NOT in this inventory and is bound once to a literal as a named constant introduced later
("magic value -> _NAME") and reads its uses as the literal.  Run once on the pinned tree."""
import ast, json, os
HERE = os.path.dirname(os.path.dirname(os.path.abspath(__file__)))
inv = {}
for dp, dn, fn in os.walk("/repo/synkit"):
    for f in sorted(fn):
        if not f.endswith(".py"):
            continue
        path = os.path.join(dp, f)
        rel = os.path.relpath(path, "/repo")
        try:
            tree = ast.parse(open(path, encoding="utf-8").read())
        except SyntaxError:
            continue
        names = set()

        def targets(st):
            if isinstance(st, ast.Assign):
                return [t for t in st.targets]
            if isinstance(st, (ast.AnnAssign, ast.AugAssign)):
                return [st.target]
            return []
        for st in ast.walk(tree):
            if isinstance(st, (ast.Module, ast.ClassDef)):
                prefix = "" if isinstance(st, ast.Module) else st.name + "."
                for b in st.body:
                    for t in targets(b):
                        for x in ast.walk(t):
                            if isinstance(x, ast.Name):
                                names.add(prefix + x.id)
        inv[rel] = sorted(names)
json.dump(inv, open(os.path.join(HERE, "sa", "baseline_constants.json"), "w"), indent=0, sort_keys=True)
print(sum(len(v) for v in inv.values()), "names in", len(inv), "modules")
