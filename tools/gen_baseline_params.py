#!/usr/bin/env python3
"""Freeze the parameter lists of the functions of the analysed package (rel -> qualified name -> [parameter names]) into
sa/baseline_params.json.  The loader (sa/specialise.py) treats a parameter that is NOT in this inventory, has a constant default and is
passed by no call in the package as an opt-in option added later, and analyses the function for the default value (the behaviour every
existing caller gets).  Run once on the pinned tree; the file is a table confirmed on that tree, not something computed at check time."""
import ast, json, os, sys
HERE = os.path.dirname(os.path.dirname(os.path.abspath(__file__)))
inv = {}
for dp, dn, fn in os.walk("/repo/synkit"):
    for f in sorted(fn):
        if not f.endswith(".py"):
            continue
        path = os.path.join(dp, f)
        rel = os.path.relpath(path, "/repo")
        try:
            tree = ast.parse(open(path, encoding="utf-8").read())
        except SyntaxError:
            continue
        out = {}

        def visit(body, prefix):
            for st in body:
                if isinstance(st, (ast.FunctionDef, ast.AsyncFunctionDef)):
                    a = st.args
                    out[prefix + st.name] = [x.arg for x in a.posonlyargs + a.args] + ([a.vararg.arg] if a.vararg else []) + [x.arg for x in a.kwonlyargs] + ([a.kwarg.arg] if a.kwarg else [])
                    visit(st.body, prefix + st.name + ".<locals>.")
                elif isinstance(st, ast.ClassDef):
                    visit(st.body, prefix + st.name + ".")
                elif isinstance(st, (ast.If, ast.Try, ast.With)):
                    for b in ("body", "orelse", "finalbody"):
                        visit(getattr(st, b, []) or [], prefix)
                    for h in getattr(st, "handlers", []) or []:
                        visit(h.body, prefix)
        visit(tree.body, "")
        inv[rel] = out
json.dump(inv, open(os.path.join(HERE, "sa", "baseline_params.json"), "w"), indent=0, sort_keys=True)
print(sum(len(v) for v in inv.values()), "functions in", len(inv), "modules")
