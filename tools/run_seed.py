#!/usr/bin/env python3
"""Apply a seeded change to /repo, run every quick check (no evidence written), undo it.

usage: tools/run_seed.py <patch.diff> [Cxx ...]
prints one line per property: HOLDS / VIOLATION (+ first finding) / ANALYSIS-ERROR
"""
import subprocess, sys, os, json
HERE = os.path.dirname(os.path.dirname(os.path.abspath(__file__)))
sys.path.insert(0, HERE)
from sa.check import ALL, analyse

def main():
    patch = os.path.abspath(sys.argv[1])
    props = sys.argv[2:] or ALL
    st = subprocess.run(["git", "-C", "/repo", "status", "--porcelain"], capture_output=True, text=True).stdout.strip()
    if st:
        print("refusing: /repo working tree is not clean:\n" + st); return 3
    r = subprocess.run(["git", "-C", "/repo", "apply", patch], capture_output=True, text=True)
    if r.returncode:
        print("patch does not apply:", r.stderr); return 3
    out = {}
    try:
        for p in props:
            try:
                code, rep, _ = analyse(p, "/repo", "quick", quiet=True, overlay={})
                v = rep.result.get("violations", [])
                first = f"{v[0]['rule']} {v[0]['obligation']} at {v[0]['where']}: {v[0]['what'][:110]} :: {v[0]['construct'][:70]}" if v else ""
                und = rep.result.get("undecided", [])
                if code == 2:
                    first = "; ".join(l for l in rep.result.get("lines", []) if "ANALYSIS-ERROR" in l)[:260]
                out[p] = (code, first)
            except Exception as exc:
                out[p] = (2, f"crash: {exc!r}")
    finally:
        subprocess.run(["git", "-C", "/repo", "checkout", "--", "."], check=True)
    for p in props:
        code, first = out[p]
        tag = {0: "HOLDS", 1: "VIOLATION", 2: "ANALYSIS-ERROR"}[code]
        if code:
            print(f"{p}: {tag} {first}")
    fired = [p for p in props if out[p][0] == 1]
    print("fired:", fired or "none", "| broken:", [p for p in props if out[p][0] == 2] or "none")
    return 0

if __name__ == "__main__":
    sys.exit(main())
