#!/usr/bin/env python3
"""Run every quick check (no evidence written) against /repo with a seeded change applied.

usage: tools/run_seed.py [--apply] <patch.diff> [Cxx ...]
prints one line per property: HOLDS / VIOLATION (+ first finding) / ANALYSIS-ERROR

default: the patch is applied to scratch copies of the touched files (outside /repo) and the patched texts are analysed as an
         in-memory overlay on top of /repo's working tree - /repo itself is not touched, so several runs can go on at once
--apply: `git -C /repo apply <patch>`, run, `git -C /repo checkout -- .`  (needed when the patch creates new modules)
"""
import subprocess, sys, os, json
HERE = os.path.dirname(os.path.dirname(os.path.abspath(__file__)))
sys.path.insert(0, HERE)
from sa.check import ALL, analyse

def overlay_of(patch):
    import tempfile, shutil
    files = [l[6:].strip() for l in open(patch) if l.startswith("+++ b/")]
    tmp = tempfile.mkdtemp(prefix="seedrun.")
    try:
        for rel in files:
            src = os.path.join("/repo", rel)
            if not os.path.exists(src):
                return None
            os.makedirs(os.path.dirname(os.path.join(tmp, rel)), exist_ok=True)
            shutil.copy(src, os.path.join(tmp, rel))
        r = subprocess.run(["git", "apply", patch], cwd=tmp, capture_output=True, text=True)
        if r.returncode:
            print("patch does not apply:", r.stderr)
            return None
        return {rel: open(os.path.join(tmp, rel), encoding="utf-8").read() for rel in files}
    finally:
        shutil.rmtree(tmp, ignore_errors=True)


def report(props, out):
    for p in props:
        code, first = out[p]
        tag = {0: "HOLDS", 1: "VIOLATION", 2: "ANALYSIS-ERROR"}[code]
        if code:
            print(f"{p}: {tag} {first}")
    fired = [p for p in props if out[p][0] == 1]
    print("fired:", fired or "none", "| broken:", [p for p in props if out[p][0] == 2] or "none")


def run(props, overlay):
    out = {}
    for p in props:
        try:
            code, rep, _ = analyse(p, "/repo", "quick", quiet=True, overlay=dict(overlay))
            v = rep.result.get("violations", [])
            first = f"{v[0]['rule']} {v[0]['obligation']} at {v[0]['where']}: {v[0]['what'][:110]} :: {v[0]['construct'][:70]}" if v else ""
            if code == 2:
                first = "; ".join(l for l in rep.result.get("lines", []) if "ANALYSIS-ERROR" in l)[:260]
            out[p] = (code, first)
        except Exception as exc:
            out[p] = (2, f"crash: {exc!r}")
    return out


def main():
    args = [a for a in sys.argv[1:] if a != "--apply"]
    patch = os.path.abspath(args[0])
    props = args[1:] or ALL
    if "--apply" not in sys.argv:
        ov = overlay_of(patch)
        if ov is not None:
            report(props, run(props, ov))
            return 0
        print("falling back to --apply (new file or patch did not apply to copies)")
    st = subprocess.run(["git", "-C", "/repo", "status", "--porcelain"], capture_output=True, text=True).stdout.strip()
    if st:
        print("refusing: /repo working tree is not clean:\n" + st); return 3
    r = subprocess.run(["git", "-C", "/repo", "apply", patch], capture_output=True, text=True)
    if r.returncode:
        print("patch does not apply:", r.stderr); return 3
    out = {}
    try:
        for p in props:
            try:
                code, rep, _ = analyse(p, "/repo", "quick", quiet=True, overlay={})
                v = rep.result.get("violations", [])
                first = f"{v[0]['rule']} {v[0]['obligation']} at {v[0]['where']}: {v[0]['what'][:110]} :: {v[0]['construct'][:70]}" if v else ""
                und = rep.result.get("undecided", [])
                if code == 2:
                    first = "; ".join(l for l in rep.result.get("lines", []) if "ANALYSIS-ERROR" in l)[:260]
                out[p] = (code, first)
            except Exception as exc:
                out[p] = (2, f"crash: {exc!r}")
    finally:
        subprocess.run(["git", "-C", "/repo", "checkout", "--", "."], check=True)
    for p in props:
        code, first = out[p]
        tag = {0: "HOLDS", 1: "VIOLATION", 2: "ANALYSIS-ERROR"}[code]
        if code:
            print(f"{p}: {tag} {first}")
    fired = [p for p in props if out[p][0] == 1]
    print("fired:", fired or "none", "| broken:", [p for p in props if out[p][0] == 2] or "none")
    return 0

if __name__ == "__main__":
    sys.exit(main())
