#!/usr/bin/env python3
"""Robustness probe: alpha-rename every *local* variable (not parameters, not globals) in all functions of the
modules a property consults, analyse the renamed tree through an overlay, and report the outcome.
A behaviour-preserving rename must never produce a VIOLATION."""
import ast, os, sys, json, symtable
HERE = os.path.dirname(os.path.dirname(os.path.abspath(__file__)))
sys.path.insert(0, HERE)
from sa.check import ALL, analyse
from sa.core import Repo


class Renamer(ast.NodeTransformer):
    def __init__(self):
        self.stack = []

    def _locals_of(self, fn):
        params = {a.arg for a in fn.args.posonlyargs + fn.args.args + fn.args.kwonlyargs}
        if fn.args.vararg: params.add(fn.args.vararg.arg)
        if fn.args.kwarg: params.add(fn.args.kwarg.arg)
        assigned, declared = set(), set()
        for n in ast.walk(fn):
            if n is not fn and isinstance(n, (ast.FunctionDef, ast.AsyncFunctionDef, ast.Lambda)):
                # a name that is a parameter of a nested lambda / def shadows the local there: leave it alone
                aa = n.args
                declared |= {a.arg for a in aa.posonlyargs + aa.args + aa.kwonlyargs}
                if aa.vararg: declared.add(aa.vararg.arg)
                if aa.kwarg: declared.add(aa.kwarg.arg)
            if n is not fn and isinstance(n, (ast.FunctionDef, ast.AsyncFunctionDef, ast.ClassDef)):
                declared.add(n.name)
            if isinstance(n, ast.Name) and isinstance(n.ctx, (ast.Store, ast.Del)):
                assigned.add(n.id)
            if isinstance(n, (ast.Global, ast.Nonlocal)):
                declared |= set(n.names)
            if isinstance(n, ast.ExceptHandler) and n.name:
                declared.add(n.name)
            if isinstance(n, (ast.Import, ast.ImportFrom)):
                for a in n.names:
                    declared.add(a.asname or a.name.split(".")[0])
        return {x for x in assigned if x not in params and x not in declared and x != "_" and not x.startswith("__")}

    def visit_FunctionDef(self, node):
        loc = self._locals_of(node)
        # nested functions see the enclosing renames as well
        self.stack.append(loc)
        self.generic_visit(node)
        self.stack.pop()
        return node
    visit_AsyncFunctionDef = visit_FunctionDef

    def visit_Name(self, node):
        for loc in reversed(self.stack):
            if node.id in loc:
                return ast.copy_location(ast.Name(id=node.id + "_rn", ctx=node.ctx), node)
        return node


def renamed(src):
    tree = ast.parse(src)
    tree = Renamer().visit(tree)
    ast.fix_missing_locations(tree)
    out = ast.unparse(tree)
    compile(out, "<renamed>", "exec")
    return out


def main():
    props = sys.argv[1:] or ALL
    for p in props:
        code, rep, _ = analyse(p, "/repo", "quick", quiet=True, overlay={})
        files = sorted(rep.repo.consulted)
        # package-wide sweeps read every module: rename them all
        for dp, dn, fn in os.walk("/repo/synkit"):
            for f in fn:
                if f.endswith(".py"):
                    rel = os.path.relpath(os.path.join(dp, f), "/repo")
                    if rel not in files:
                        files.append(rel)
        overlay = {}
        for rel in files:
            try:
                overlay[rel] = renamed(open(os.path.join("/repo", rel)).read())
            except Exception as exc:
                print(p, "cannot rename", rel, exc)
        code2, rep2, _ = analyse(p, "/repo", "quick", quiet=True, overlay=overlay)
        v = rep2.result.get("violations", [])
        u = rep2.result.get("undecided", [])
        err = [l for l in rep2.result.get("lines", []) if "ANALYSIS-ERROR" in l]
        print(f"{p}: clean={code} renamed={code2} violations={len(v)} undecided={len(u)} errors={len(err)}")
        for o in v[:6]:
            print(f"    FALSE-ALARM {o['obligation']} {o['rule']} {o['where']}: {o['what'][:80]} :: {o['construct'][:60]}")
        for o in u[:8]:
            print(f"    UNDECIDED {o['obligation']} {o['rule']} {o['where']}: {o['what'][:90]} :: {o['construct'][:60]}")
        for l in err[:3]:
            print("    " + l[:200])

if __name__ == "__main__":
    main()
