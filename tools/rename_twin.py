#!/usr/bin/env python3
"""Robustness probe: alpha-rename every *local* variable (not parameters, not globals) in all functions of the
modules a property consults, analyse the renamed tree through an overlay, and report the outcome.
A behaviour-preserving rename must never produce a VIOLATION."""
import ast, os, sys, json, symtable
HERE = os.path.dirname(os.path.dirname(os.path.abspath(__file__)))
sys.path.insert(0, HERE)
from sa.check import ALL, analyse
from sa.core import Repo


from sa.selftest.rename import renamed  # noqa: E402


def main():
    props = sys.argv[1:] or ALL
    for p in props:
        code, rep, _ = analyse(p, "/repo", "quick", quiet=True, overlay={})
        files = sorted(rep.repo.consulted)
        # package-wide sweeps read every module: rename them all
        for dp, dn, fn in os.walk("/repo/synkit"):
            for f in fn:
                if f.endswith(".py"):
                    rel = os.path.relpath(os.path.join(dp, f), "/repo")
                    if rel not in files:
                        files.append(rel)
        overlay = {}
        for rel in files:
            try:
                overlay[rel] = renamed(open(os.path.join("/repo", rel)).read())
            except Exception as exc:
                print(p, "cannot rename", rel, exc)
        code2, rep2, _ = analyse(p, "/repo", "quick", quiet=True, overlay=overlay)
        v = rep2.result.get("violations", [])
        u = rep2.result.get("undecided", [])
        err = [l for l in rep2.result.get("lines", []) if "ANALYSIS-ERROR" in l]
        print(f"{p}: clean={code} renamed={code2} violations={len(v)} undecided={len(u)} errors={len(err)}")
        for o in v[:6]:
            print(f"    FALSE-ALARM {o['obligation']} {o['rule']} {o['where']}: {o['what'][:80]} :: {o['construct'][:60]}")
        for o in u[:8]:
            print(f"    UNDECIDED {o['obligation']} {o['rule']} {o['where']}: {o['what'][:90]} :: {o['construct'][:60]}")
        for l in err[:3]:
            print("    " + l[:200])

if __name__ == "__main__":
    main()
