#!/usr/bin/env python3
"""Confirm a seeded change in a scratch worktree and store it under /verif/seeded/<name>/.

usage: tools/confirm_seed.py <PROP> <k>      (reads /tmp/seed/<PROP>.out/change<k>.diff, demo<k>.py, meta<k>.json)
Steps (all in /tmp/seed/<PROP>, a detached worktree of /repo's HEAD):
  1. clean tree: demo exits 0
  2. git apply diff; compileall of touched files; demo exits non-zero
  3. full test suite with the diff applied gives no failure
  4. git checkout -- .  (worktree clean again)
Then runs every quick check against /repo with the patch applied (tools/run_seed.py logic) and records which fire.
"""
import json, os, subprocess, sys, shutil
HERE = os.path.dirname(os.path.dirname(os.path.abspath(__file__)))
PY = "/venv/bin/python"

def sh(cmd, cwd, env=None, timeout=1800):
    e = dict(os.environ); e.update(env or {})
    r = subprocess.run(cmd, cwd=cwd, env=e, capture_output=True, text=True, timeout=timeout, shell=isinstance(cmd, str))
    return r.returncode, (r.stdout + r.stderr)

def main():
    prop, k = sys.argv[1], sys.argv[2]
    wt = f"/tmp/seed/{prop}"
    out = f"/tmp/seed/{prop}.out"
    diff, demo, meta = (f"{out}/change{k}.diff", f"{out}/demo{k}.py", f"{out}/meta{k}.json")
    env = {"PYTHONPATH": wt}
    log = {}
    rc, o = sh(["git", "status", "--porcelain"], wt)
    if o.strip():
        print("worktree not clean:", o); return 3
    rc, o = sh([PY, demo], wt, env); log["demo_clean_rc"] = rc
    rc2, o2 = sh(["git", "apply", diff], wt)
    if rc2:
        print("patch does not apply", o2); return 3
    try:
        files = [l[6:] for l in open(diff) if l.startswith("+++ b/")]
        files = [f.strip() for f in files]
        rcc, oc = sh([PY, "-m", "py_compile"] + files, wt); log["compiles"] = (rcc == 0)
        rcd, od = sh([PY, demo], wt, env); log["demo_changed_rc"] = rcd; log["demo_changed_tail"] = od.strip().splitlines()[-3:]
        rct, ot = sh(f"{PY} -m pytest -p no:cacheprovider --timeout=900 -q -n 8 2>&1 | tail -3", wt, env); log["suite_tail"] = ot.strip().splitlines()[-1:]
        log["suite_ok"] = ("failed" not in ot and "error" not in ot.lower().split("warnings")[0] and "passed" in ot)
    finally:
        sh(["git", "checkout", "--", "."], wt)
    ok = log["demo_clean_rc"] == 0 and log["compiles"] and log["demo_changed_rc"] != 0 and log["suite_ok"]
    print(json.dumps(log, indent=1))
    if not ok:
        print(f"NOT CONFIRMED {prop} change{k}"); return 1
    # which checks fire?
    r = subprocess.run([PY, os.path.join(HERE, "tools", "run_seed.py"), diff], capture_output=True, text=True, cwd=HERE)
    fired_line = [l for l in r.stdout.splitlines() if l.startswith("fired:")]
    det = [l for l in r.stdout.splitlines() if ": VIOLATION" in l or ": ANALYSIS-ERROR" in l]
    name = f"{prop}-{k}"
    dst = os.path.join(HERE, "seeded", name)
    os.makedirs(dst, exist_ok=True)
    shutil.copy(diff, os.path.join(dst, "patch.diff"))
    shutil.copy(demo, os.path.join(dst, "demo.py"))
    m = json.load(open(meta)) if os.path.exists(meta) else {}
    m.update({"property": prop, "confirmed": {"demo_on_clean_tree_rc": log["demo_clean_rc"], "demo_with_change_rc": log["demo_changed_rc"],
                                               "demo_with_change_output_tail": log["demo_changed_tail"], "full_suite_with_change": log["suite_tail"],
                                               "commands": [f"cd {wt} && PYTHONPATH={wt} {PY} demo.py  (clean: rc 0)",
                                                            f"git apply patch.diff && PYTHONPATH={wt} {PY} demo.py  (rc != 0)",
                                                            f"PYTHONPATH={wt} {PY} -m pytest -p no:cacheprovider --timeout=900 -q -n 8  (no failure)",
                                                            "git checkout -- ."]},
              "checks": {"summary": fired_line[0] if fired_line else "", "details": det}})
    json.dump(m, open(os.path.join(dst, "meta.json"), "w"), indent=1)
    print(f"CONFIRMED {name}: {fired_line[0] if fired_line else ''}")
    return 0

if __name__ == "__main__":
    sys.exit(main())
