#!/usr/bin/env python3
"""Re-run every quick check against the stored behaviour-preserving refactorings (overlay mode, /repo untouched) and record the outcome
in their meta.json.   usage: tools/refresh_refactor_meta.py [<id> ...]     e.g. C07-r2   (default: all)"""
import json, os, sys
from concurrent.futures import ProcessPoolExecutor
HERE = os.path.dirname(os.path.dirname(os.path.abspath(__file__)))
sys.path.insert(0, HERE)
sys.path.insert(0, os.path.join(HERE, "tools"))
from sa.check import ALL
import run_seed as RS


def one(rid):
    d = os.path.join(HERE, "refactors", rid)
    ov = RS.overlay_of(os.path.join(d, "patch.diff"))
    if ov is None:
        return rid, None
    out = RS.run(ALL, ov)
    return rid, {p: (out[p][0], out[p][1][:300]) for p in ALL}


def main():
    ids = sys.argv[1:] or sorted(os.listdir(os.path.join(HERE, "refactors")))
    with ProcessPoolExecutor(max_workers=16) as ex:
        res = list(ex.map(one, ids))
    bad = 0
    for rid, out in res:
        mp = os.path.join(HERE, "refactors", rid, "meta.json")
        meta = json.load(open(mp))
        if out is None:
            print(rid, "patch does not apply (tree moved on?)")
            continue
        fired = [p for p in ALL if out[p][0] == 1]
        und = [p for p in ALL if out[p][0] == 2]
        meta["checks_now"] = {"false_violation": fired, "undecided": und, "details": {p: out[p][1] for p in fired + und},
                              "how": "tools/run_seed.py refactors/%s/patch.diff  (overlay on /repo's working tree; equivalent to git -C /repo apply, run, git -C /repo checkout -- .)" % rid}
        json.dump(meta, open(mp, "w"), indent=1)
        bad += bool(fired)
        print(rid, "silent" if not fired and not und else f"false VIOLATION: {fired} | undecided: {und}")
    return 1 if bad else 0


if __name__ == "__main__":
    sys.exit(main())
