#!/usr/bin/env python3
"""Robustness probe 2: behaviour-preserving *shape* edits applied to the whole package through an overlay.

  flip     a == b -> b == a ; a != b -> b != a ; a < b -> b > a ...   (single-operator comparisons between side-effect-free operands)
  invert   if c: A else: B  ->  if not c: B else: A                   (only when both branches exist and there is no elif chain)
  kwargs   f(x, a=1, b=2)   ->  f(x, b=2, a=1)                        (keyword order reversed; no **splat in between)
  aug      n += 1           ->  n = n + 1                              (Name target, numeric constant operand)

usage: tools/shape_twin.py <kind> [props]
A behaviour-preserving edit must never produce a VIOLATION; UNDECIDED (exit 2) is reported separately."""
import ast, os, sys
HERE = os.path.dirname(os.path.dirname(os.path.abspath(__file__)))
sys.path.insert(0, HERE)
from sa.check import ALL, analyse

from sa.selftest.shape import KINDS  # noqa: E402


def main():
    kind = sys.argv[1]
    props = sys.argv[2:] or ALL
    from sa.selftest.shape import reshaped_package
    overlay = dict(reshaped_package("/repo", kind))
    for p in props:
        code, rep, _ = analyse(p, "/repo", "quick", quiet=True, overlay=dict(overlay))
        v = rep.result.get("violations", [])
        u = rep.result.get("undecided", [])
        print(f"{p} [{kind}]: exit={code} violations={len(v)} undecided={len(u)}")
        for o in v[:8]:
            print(f"    FALSE-ALARM {o['obligation']} {o['rule']} {o['where']}: {o['what'][:80]} :: {o['construct'][:70]}")
        for o in u[:4]:
            print(f"    UNDECIDED {o['obligation']} {o['rule']} {o['where']}: {o['what'][:80]} :: {o['construct'][:70]}")


if __name__ == "__main__":
    main()
