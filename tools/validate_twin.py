#!/usr/bin/env python3
"""Sanity of the twin generators themselves (development aid, not a registered check): write the whole-package shape twin <kind> into a
scratch copy of /repo, run the repository's test suite there, remove the copy.  A twin kind is only used by the self-test once its
rewritten package still passes the suite (the rewrite is meant to be behaviour-preserving).

usage: tools/validate_twin.py <kind> [...]"""
import os, shutil, subprocess, sys, tempfile
HERE = os.path.dirname(os.path.dirname(os.path.abspath(__file__)))
sys.path.insert(0, HERE)
from sa.selftest.shape import reshaped_package  # noqa: E402
import ast  # noqa: E402


def main():
    for kind in sys.argv[1:]:
        tmp = tempfile.mkdtemp(prefix="twin-")
        try:
            dst = os.path.join(tmp, "repo")
            subprocess.run(["rsync", "-a", "--exclude", ".git", "/repo/", dst + "/"], check=True)
            out = reshaped_package("/repo", kind)
            changed = 0
            for rel, src in out.items():
                if ast.unparse(ast.parse(open(os.path.join("/repo", rel)).read())) != src:
                    changed += 1
                open(os.path.join(dst, rel), "w").write(src)
            env = dict(os.environ, PYTHONPATH=dst)
            r = subprocess.run(["/venv/bin/python", "-m", "pytest", "-p", "no:cacheprovider", "--timeout=900", "-q", "-n", "8"], cwd=dst, env=env,
                               capture_output=True, text=True)
            print(f"{kind}: {changed} modules changed; {r.stdout.strip().splitlines()[-1]}")
        finally:
            shutil.rmtree(tmp, ignore_errors=True)


if __name__ == "__main__":
    main()
