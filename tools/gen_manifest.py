#!/usr/bin/env python3
"""Regenerate MANIFEST.json from the drivers present under sa/props/."""
import importlib, json, os, sys
HERE = os.path.dirname(os.path.dirname(os.path.abspath(__file__)))
sys.path.insert(0, HERE)
PY = "/venv/bin/python"
NA = {
    "C04": "round-trip equality over runtime chemistry values (RDKit canonical strings after Standardize.fit, VF2 match "
           "sets); no clause of C04 itself is visible in code shape - its structural necessary conditions (matcher "
           "predicate, pruning is a sub-list, inversion parity) are decided where they are anchored (C03, C06, C11)",
    "C09": "idempotence/invariance/exactness of RDKit's canonical SMILES writer, sanitiser, CalcMolFormula and of "
           "nx.is_isomorphic; the repository code is a thin pipeline around them and no sound static argument in reach "
           "bounds those runtime values",
}
props = [json.loads(l) for l in open(os.path.join(HERE, "properties.jsonl"))]
checks, na = [], []
for p in props:
    pid = p["id"]
    if pid in NA:
        na.append({"property_id": pid, "reason": NA[pid]})
        continue
    if not os.path.exists(os.path.join(HERE, "sa", "props", f"{pid}.py")):
        na.append({"property_id": pid, "reason": "static check designed (DESIGN.md section 4) but not yet built; not claimed until it is"})
        continue
    mod = importlib.import_module(f"sa.props.{pid}")
    m = mod.META
    checks.append({
        "property_id": pid,
        "quick_cmd": f"{PY} -m sa.check {pid} --tier quick",
        "thorough_cmd": f"{PY} -m sa.check {pid} --tier thorough",
        "evidence_file": f"/verif/evidence/{pid}.json",
        "replay_cmd_template": f"{PY} -m sa.check --replay {{path}}",
        "engine": "sa",
        "level_claimed": {
            "category": "other",
            "text": m.get("level_text") or (
                "Static analysis of /repo's current source: " + m["explanation"] +
                " Decides these structural clauses on every path of the analysed code; does NOT decide the behaviour: "
                + m["not_decided"]),
            "design_ref": f"DESIGN.md section 4/{pid}",
        },
        "level_note": "Trusted: " + "; ".join(m.get("trusted_base", [])) + ". Assumes: " + "; ".join(m.get("assumptions", [])) +
                      ". Obligations are necessary conditions (clauses) of the property, not the property itself.",
        "technique": m.get("technique", "static analysis: repository-specific AST/def-use/CFG rules (" + ", ".join(m["rules"].keys()) + ")"),
    })
man = {
    "version": 1,
    "setup_cmd": "true",
    "hooks": {
        "guard": "SYNKIT_VERIF",
        "enable": "none needed: nothing in /repo is instrumented; the analyser only reads source text",
        "baseline_off_cmd": "cd /repo && /venv/bin/python -m pytest -ra -q -p no:cacheprovider --timeout=900 --continue-on-collection-errors",
        "source_commits": [],
        "add_only": True,
    },
    "engines": [{
        "name": "sa",
        "path": "/verif/sa",
        "serves_properties": [c["property_id"] for c in checks],
        "kind_free_text": "purpose-built static analyser (Python ast + statement CFG/dominators on networkx + def-use + tiny abstract domains); "
                          "never imports or runs synkit",
    }],
    "checks": checks,
    "not_applicable": na,
    "notes": "Exit codes: 0 holds (KNOWN-FINDING lines for recorded defects), 1 VIOLATION, 2 ANALYSIS-ERROR (undecided / vanished anchor; never a pass). "
             "known_findings.json lists recorded (known) and repaired (fixed) defects. Thorough tier = quick + package-wide sweep + mutation self-test of the checker.",
}
json.dump(man, open(os.path.join(HERE, "MANIFEST.json"), "w"), indent=1)
print(f"{len(checks)} checks, {len(na)} not_applicable")
